import Bng.Proof.AcctDrain
/-
  no_dup: a session that was started after the latest crash never has two Stops accepted (session ids not
  reused).  The invariant says where a further Stop of a session could still come from — the session in
  memory, its session file, a Stop record in the retry map or in pending.json — and that once a Stop of the
  session has been accepted none of them is left, except those the call in progress is about to remove.
-/
namespace Bng.Acct
open Bng AMap

def isStop (p : PRec) (s : Nat) : Prop := p.req.kind = .stop ∧ p.req.sid = s

def AS (σ : State) (s : Nat) : Prop := (lookup σ.vol.sessions s).isSome = true
def FS (σ : State) (s : Nat) : Prop := (lookup σ.dur.files s).isSome = true
def PS (σ : State) (s : Nat) : Prop := ∃ p ∈ σ.vol.pending, isStop p s
def QS (σ : State) (s : Nat) : Prop := ∃ ps, σ.dur.pfile = some ps ∧ ∃ p ∈ ps, isStop p s
def stopCount (log : List Rec) (s : Nat) : Nat := (log.filter (isStopOf s)).length

/-- the frame is about to remove the session file of `s` -/
def cleans : Option Frame → Nat → Prop
  | some (.stopDelete k true), s => k = s
  | some (.stopRemove k true), s => k = s
  | some (.procRemove k _), s => k = s
  | some (.drainRemove k _), s => k = s
  | some (.recRemove k _ _ _), s => k = s
  | _, _ => False

/-- the sessions the shutdown drain has still to send a Stop for -/
def pendingDrain : Option Frame → Option (List Nat)
  | some (.drainSend k rest) => some (k :: rest)
  | some (.drainRemove _ rest) => some rest
  | some .persistPending => some []
  | _ => none

def drainedBy (pc : Option Frame) (s : Nat) : Prop := ∃ l, pendingDrain pc = some l ∧ s ∉ l

/-- why a session still in memory will not get another Stop: StopSession is about to delete it, or the
    shutdown drain has dealt with it (the process exits afterwards) -/
def exA (pc : Option Frame) (s : Nat) (acked : Bool) : Prop :=
  pc = some (.stopDelete s acked) ∨ drainedBy pc s

/-- the recovery procedure will not load a Stop of `s` from pending.json -/
def covers : Option Frame → Nat → Prop
  | some (.recSend _ _ recd _), s => s ∈ recd
  | some (.recRemove k _ recd _), s => s = k ∨ s ∈ recd
  | some (.recLoad recd _), s => s ∈ recd
  | some .recPendRemove, _ => True
  | _, _ => False

/-- (sessions already recovered, session being recovered) -/
def recInfo : Option Frame → Option (List Nat × Option Nat)
  | some (.recSend _ _ recd _) => some (recd, none)
  | some (.recRemove k _ recd _) => some (recd, some k)
  | some (.recLoad recd _) => some (recd, none)
  | _ => none

/-- the per-session part, for sessions registered after the latest crash -/
structure NDs (σ : State) (s : Nat) : Prop where
  a : stopCount σ.log s ≤ 1
  b : ∀ p ∈ σ.vol.pending, ∀ q ∈ σ.vol.pending, isStop p s → isStop q s → p.id = q.id
  c : ∀ ps, σ.dur.pfile = some ps → ∀ p ∈ ps, ∀ q ∈ ps, isStop p s → isStop q s → p.id = q.id
  d : stopIn σ.log s → ¬ PS σ s
  e : stopIn σ.log s → FS σ s → cleans σ.vol.pc s
  f : stopIn σ.log s → AS σ s → exA σ.vol.pc s true
  g : stopIn σ.log s → QS σ s → covers σ.vol.pc s
  h : PS σ s → AS σ s → exA σ.vol.pc s false
  i : PS σ s → QS σ s → covers σ.vol.pc s
  j : AS σ s → ¬ QS σ s

structure ND (σ : State) : Prop where
  per : ∀ s, s ∉ σ.tainted → NDs σ s
  r1 : isRec σ.vol.pc → σ.vol.sessions = []
  r2 : ∀ recd cur, recInfo σ.vol.pc = some (recd, cur) →
    (∀ x ∈ recd, ¬ FS σ x) ∧ (∀ p ∈ σ.vol.pending, ∀ s, isStop p s → s ∈ recd ∨ cur = some s)
  dr : ∀ l, pendingDrain σ.vol.pc = some l → l.Nodup

theorem stopCount_zero_iff {log : List Rec} {s : Nat} : stopCount log s = 0 ↔ ¬ stopIn log s := by
  unfold stopCount stopIn
  rw [List.length_eq_zero_iff, List.filter_eq_nil_iff]
  constructor
  · rintro h ⟨r, hr, hk, hs⟩
    exact h r hr (by simp [isStopOf, hk, hs])
  · intro h r hr hc
    simp only [isStopOf, Bool.and_eq_true, beq_iff_eq] at hc
    exact h ⟨r, hr, hc.1, hc.2⟩

theorem stopCount_snoc (log : List Rec) (r : Rec) (s : Nat) :
    stopCount (log ++ [r]) s = stopCount log s + (if isStopOf s r then 1 else 0) := by
  unfold stopCount
  rw [List.filter_append, List.length_append]
  simp only [List.filter_cons, List.filter_nil]
  split <;> simp

theorem stopIn_snoc {log : List Rec} {r : Rec} {s : Nat} :
    stopIn (log ++ [r]) s ↔ stopIn log s ∨ (r.kind = .stop ∧ r.sid = s) := by
  unfold stopIn
  constructor
  · rintro ⟨r', hr', h⟩
    rcases List.mem_append.mp hr' with e | e
    · exact Or.inl ⟨r', e, h⟩
    · simp only [List.mem_singleton] at e; subst e; exact Or.inr h
  · rintro (⟨r', hr', h⟩ | h)
    · exact ⟨r', List.mem_append_left _ hr', h⟩
    · exact ⟨r, by simp, h⟩


/-- a new Stop record may be queued for a session only when none is queued, none was accepted, and the
    frame that follows knows about the session in memory / the copy in pending.json -/
def NewStop (σ σ' : State) (p : PRec) : Prop :=
  ¬ PS σ p.req.sid ∧ ¬ stopIn σ.log p.req.sid ∧
  (AS σ' p.req.sid → exA σ'.vol.pc p.req.sid false) ∧ (QS σ' p.req.sid → covers σ'.vol.pc p.req.sid)

/-- one step that accepts no Stop -/
theorem nd_gen {σ σ' : State} (h : ND σ)
    (ht : σ'.tainted = σ.tainted)
    (hL : ∀ s, stopIn σ'.log s ↔ stopIn σ.log s)
    (hC : ∀ s, stopCount σ'.log s = stopCount σ.log s)
    (hA : ∀ s, s ∉ σ.tainted → AS σ' s → AS σ s ∨ (¬ stopIn σ.log s ∧ ¬ PS σ' s ∧ ¬ QS σ' s))
    (hF : ∀ s, s ∉ σ.tainted → FS σ' s → FS σ s ∨ ¬ stopIn σ.log s)
    (hP : ∀ p ∈ σ'.vol.pending, (∃ q ∈ σ.vol.pending, q.id = p.id ∧ q.req = p.req) ∨ p.req.kind ≠ .stop ∨
      (p.req.sid ∉ σ.tainted → NewStop σ σ' p))
    (hPid : ∀ s, s ∉ σ.tainted → ¬ PS σ s →
      ∀ p ∈ σ'.vol.pending, ∀ q ∈ σ'.vol.pending, isStop p s → isStop q s → p.id = q.id)
    (hQ : ∀ ps', σ'.dur.pfile = some ps' → σ.dur.pfile = some ps' ∨
      ((∀ p ∈ ps', ∃ q ∈ σ.vol.pending, q.id = p.id ∧ q.req = p.req) ∧ σ'.vol.pending = [] ∧ σ'.vol.sessions = []))
    (hcl : ∀ s, s ∉ σ.tainted → stopIn σ.log s → cleans σ.vol.pc s → cleans σ'.vol.pc s ∨ ¬ FS σ' s)
    (hex : ∀ s b, exA σ.vol.pc s b → exA σ'.vol.pc s b ∨ ¬ AS σ' s)
    (hcv : ∀ s, covers σ.vol.pc s → covers σ'.vol.pc s ∨ ¬ QS σ' s)
    (hr1 : isRec σ'.vol.pc → σ'.vol.sessions = [])
    (hr2 : ∀ recd cur, recInfo σ'.vol.pc = some (recd, cur) →
      (∀ x ∈ recd, ¬ FS σ' x) ∧ (∀ p ∈ σ'.vol.pending, ∀ s, isStop p s → s ∈ recd ∨ cur = some s))
    (hdr : ∀ l, pendingDrain σ'.vol.pc = some l → l.Nodup) : ND σ' := by
  refine ⟨?_, hr1, hr2, hdr⟩
  intro s hs
  rw [ht] at hs
  have n := h.per s hs
  -- an old Stop record of s behind a record of the new map
  have oldOf : ∀ p ∈ σ'.vol.pending, isStop p s → PS σ s →
      ∃ q ∈ σ.vol.pending, q.id = p.id ∧ isStop q s := by
    intro p hp hps hPS
    rcases hP p hp with ⟨q, hq, e1, e2⟩ | h1 | h1
    · exact ⟨q, hq, e1, by unfold isStop; rw [e2]; exact hps⟩
    · exact absurd hps.1 h1
    · have h1 := h1 (by rw [hps.2]; exact hs)
      unfold NewStop at h1; rw [hps.2] at h1; exact absurd hPS h1.1
  have psOld : PS σ' s → PS σ s ∨ ∃ p ∈ σ'.vol.pending, isStop p s ∧ NewStop σ σ' p := by
    rintro ⟨p, hp, hps⟩
    rcases hP p hp with ⟨q, hq, _, e2⟩ | h1 | h1
    · exact Or.inl ⟨q, hq, by unfold isStop; rw [e2]; exact hps⟩
    · exact absurd hps.1 h1
    · exact Or.inr ⟨p, hp, hps, h1 (by rw [hps.2]; exact hs)⟩
  have qsOld : QS σ' s → QS σ s ∨ (PS σ s ∧ σ'.vol.pending = [] ∧ σ'.vol.sessions = []) := by
    rintro ⟨ps', hps', p, hp, hst⟩
    rcases hQ ps' hps' with h1 | ⟨h1, h2, h3⟩
    · exact Or.inl ⟨ps', h1, p, hp, hst⟩
    · obtain ⟨q, hq, _, e2⟩ := h1 p hp
      exact Or.inr ⟨⟨q, hq, by unfold isStop; rw [e2]; exact hst⟩, h2, h3⟩
  constructor
  · rw [hC]; exact n.a
  · intro p hp q hq h1 h2
    by_cases hPS : PS σ s
    · obtain ⟨p0, hp0, e1, s1⟩ := oldOf p hp h1 hPS
      obtain ⟨q0, hq0, e2, s2⟩ := oldOf q hq h2 hPS
      rw [← e1, ← e2]; exact n.b p0 hp0 q0 hq0 s1 s2
    · exact hPid s hs hPS p hp q hq h1 h2
  · intro ps' hps' p hp q hq h1 h2
    rcases hQ ps' hps' with h0 | ⟨h0, _, _⟩
    · exact n.c ps' h0 p hp q hq h1 h2
    · obtain ⟨p0, hp0, e1, r1⟩ := h0 p hp
      obtain ⟨q0, hq0, e2, r2⟩ := h0 q hq
      rw [← e1, ← e2]
      exact n.b p0 hp0 q0 hq0 (by unfold isStop; rw [r1]; exact h1) (by unfold isStop; rw [r2]; exact h2)
  · intro hl hps
    have hl' := (hL s).mp hl
    rcases psOld hps with h1 | ⟨p, _, hst, hn⟩
    · exact n.d hl' h1
    · unfold NewStop at hn; rw [hst.2] at hn; exact hn.2.1 hl'
  · intro hl hf
    have hl' := (hL s).mp hl
    rcases hF s hs hf with h1 | h1
    · rcases hcl s hs hl' (n.e hl' h1) with h2 | h2
      · exact h2
      · exact absurd hf h2
    · exact absurd hl' h1
  · intro hl ha
    have hl' := (hL s).mp hl
    rcases hA s hs ha with h1 | h1
    · rcases hex s true (n.f hl' h1) with h2 | h2
      · exact h2
      · exact absurd ha h2
    · exact absurd hl' h1.1
  · intro hl hq
    have hl' := (hL s).mp hl
    rcases qsOld hq with h1 | ⟨h1, _, _⟩
    · rcases hcv s (n.g hl' h1) with h2 | h2
      · exact h2
      · exact absurd hq h2
    · exact absurd h1 (n.d hl')
  · intro hps ha
    rcases psOld hps with h1 | ⟨p, _, hst, hn⟩
    · rcases hA s hs ha with h2 | h2
      · rcases hex s false (n.h h1 h2) with h3 | h3
        · exact h3
        · exact absurd ha h3
      · exact absurd hps h2.2.1
    · unfold NewStop at hn; rw [hst.2] at hn; exact hn.2.2.1 ha
  · intro hps hq
    rcases psOld hps with h1 | ⟨p, _, hst, hn⟩
    · rcases qsOld hq with h2 | ⟨_, h2, _⟩
      · rcases hcv s (n.i h1 h2) with h3 | h3
        · exact h3
        · exact absurd hq h3
      · obtain ⟨p, hp, _⟩ := hps
        rw [h2] at hp; simp at hp
    · unfold NewStop at hn; rw [hst.2] at hn; exact hn.2.2.2 hq
  · intro ha hq
    rcases hA s hs ha with h1 | h1
    · rcases qsOld hq with h2 | ⟨_, _, h2⟩
      · exact n.j h1 h2
      · unfold AS at ha; rw [h2] at ha; simp at ha
    · exact h1.2.2 hq


/-- one step in which the server accepts the Stop `r` -/
theorem nd_ack {σ σ' : State} (h : ND σ) (r : Rec) (hk : r.kind = .stop)
    (ht : σ'.tainted = σ.tainted)
    (hlog : σ'.log = σ.log ++ [r])
    (hfresh : r.sid ∉ σ.tainted → ¬ stopIn σ.log r.sid)
    (hA : ∀ s, AS σ' s → AS σ s)
    (hF : ∀ s, FS σ' s → FS σ s)
    (hP : ∀ p ∈ σ'.vol.pending, ∃ q ∈ σ.vol.pending, q.id = p.id ∧ q.req = p.req)
    (hQ : σ'.dur.pfile = σ.dur.pfile)
    (h0P : r.sid ∉ σ.tainted → ¬ PS σ' r.sid) (h0F : r.sid ∉ σ.tainted → FS σ' r.sid → cleans σ'.vol.pc r.sid)
    (h0A : r.sid ∉ σ.tainted → AS σ' r.sid → exA σ'.vol.pc r.sid true)
    (h0Q : r.sid ∉ σ.tainted → QS σ' r.sid → covers σ'.vol.pc r.sid)
    (hcl : ∀ s, s ∉ σ.tainted → stopIn σ.log s → cleans σ.vol.pc s → cleans σ'.vol.pc s ∨ ¬ FS σ' s)
    (hex : ∀ s b, exA σ.vol.pc s b → exA σ'.vol.pc s b ∨ ¬ AS σ' s)
    (hcv : ∀ s, covers σ.vol.pc s → covers σ'.vol.pc s ∨ ¬ QS σ' s)
    (hr1 : isRec σ'.vol.pc → σ'.vol.sessions = [])
    (hr2 : ∀ recd cur, recInfo σ'.vol.pc = some (recd, cur) →
      (∀ x ∈ recd, ¬ FS σ' x) ∧ (∀ p ∈ σ'.vol.pending, ∀ s, isStop p s → s ∈ recd ∨ cur = some s))
    (hdr : ∀ l, pendingDrain σ'.vol.pc = some l → l.Nodup) : ND σ' := by
  refine ⟨?_, hr1, hr2, hdr⟩
  intro s hs
  rw [ht] at hs
  have n := h.per s hs
  have psOld : PS σ' s → PS σ s := by
    rintro ⟨p, hp, hps⟩
    obtain ⟨q, hq, _, e2⟩ := hP p hp
    exact ⟨q, hq, by unfold isStop; rw [e2]; exact hps⟩
  have qsOld : QS σ' s → QS σ s := by
    unfold QS; rw [hQ]; exact id
  by_cases e : s = r.sid
  · subst e
    have hno := hfresh hs
    constructor
    · rw [hlog, stopCount_snoc]
      have := stopCount_zero_iff.mpr hno
      rw [this]
      split <;> omega
    · intro p hp q hq h1 h2
      obtain ⟨p0, hp0, e1, r1⟩ := hP p hp
      obtain ⟨q0, hq0, e2, r2⟩ := hP q hq
      rw [← e1, ← e2]
      exact n.b p0 hp0 q0 hq0 (by unfold isStop; rw [r1]; exact h1) (by unfold isStop; rw [r2]; exact h2)
    · rw [hQ]; exact n.c
    · exact fun _ => h0P hs
    · exact fun _ => h0F hs
    · exact fun _ => h0A hs
    · exact fun _ => h0Q hs
    · intro hps ha
      rcases hex _ false (n.h (psOld hps) (hA _ ha)) with h3 | h3
      · exact h3
      · exact absurd ha h3
    · intro hps hq
      rcases hcv _ (n.i (psOld hps) (qsOld hq)) with h3 | h3
      · exact h3
      · exact absurd hq h3
    · intro ha hq
      exact n.j (hA _ ha) (qsOld hq)
  · have hL : stopIn σ'.log s ↔ stopIn σ.log s := by
      rw [hlog, stopIn_snoc]
      constructor
      · rintro (h1 | ⟨_, h1⟩)
        · exact h1
        · exact absurd h1.symm e
      · exact Or.inl
    constructor
    · rw [hlog, stopCount_snoc]
      have : isStopOf s r = false := by
        simp only [isStopOf, Bool.and_eq_false_iff]
        right
        simpa using (fun h => e h.symm)
      rw [this]
      simpa using n.a
    · intro p hp q hq h1 h2
      obtain ⟨p0, hp0, e1, r1⟩ := hP p hp
      obtain ⟨q0, hq0, e2, r2⟩ := hP q hq
      rw [← e1, ← e2]
      exact n.b p0 hp0 q0 hq0 (by unfold isStop; rw [r1]; exact h1) (by unfold isStop; rw [r2]; exact h2)
    · rw [hQ]; exact n.c
    · intro hl hps; exact n.d (hL.mp hl) (psOld hps)
    · intro hl hf
      rcases hcl s hs (hL.mp hl) (n.e (hL.mp hl) (hF s hf)) with h2 | h2
      · exact h2
      · exact absurd hf h2
    · intro hl ha
      rcases hex s true (n.f (hL.mp hl) (hA s ha)) with h2 | h2
      · exact h2
      · exact absurd ha h2
    · intro hl hq
      rcases hcv s (n.g (hL.mp hl) (qsOld hq)) with h2 | h2
      · exact h2
      · exact absurd hq h2
    · intro hps ha
      rcases hex s false (n.h (psOld hps) (hA s ha)) with h3 | h3
      · exact h3
      · exact absurd ha h3
    · intro hps hq
      rcases hcv s (n.i (psOld hps) (qsOld hq)) with h3 | h3
      · exact h3
      · exact absurd hq h3
    · intro ha hq
      exact n.j (hA s ha) (qsOld hq)


/-! ## frames without excuses, frames outside recovery and drain -/

def noExcuse (pc : Option Frame) : Prop :=
  (∀ s, ¬ cleans pc s) ∧ (∀ s b, ¬ exA pc s b) ∧ (∀ s, ¬ covers pc s)

def quiet (pc : Option Frame) : Prop := ¬ isRec pc ∧ recInfo pc = none ∧ pendingDrain pc = none

theorem noExcuse_none : noExcuse none := by
  refine ⟨fun s => by simp [cleans], fun s b => by simp [exA, drainedBy, pendingDrain], fun s => by simp [covers]⟩
theorem noExcuse_startSend (k : Nat) : noExcuse (some (.startSend k)) := by
  refine ⟨fun s => by simp [cleans], fun s b => by simp [exA, drainedBy, pendingDrain], fun s => by simp [covers]⟩
theorem noExcuse_startPersist (k : Nat) : noExcuse (some (.startPersist k)) := by
  refine ⟨fun s => by simp [cleans], fun s b => by simp [exA, drainedBy, pendingDrain], fun s => by simp [covers]⟩
theorem noExcuse_stopPersist (k : Nat) : noExcuse (some (.stopPersist k)) := by
  refine ⟨fun s => by simp [cleans], fun s b => by simp [exA, drainedBy, pendingDrain], fun s => by simp [covers]⟩
theorem noExcuse_stopSend (k : Nat) : noExcuse (some (.stopSend k)) := by
  refine ⟨fun s => by simp [cleans], fun s b => by simp [exA, drainedBy, pendingDrain], fun s => by simp [covers]⟩
theorem noExcuse_intSend (k : Nat) : noExcuse (some (.intSend k)) := by
  refine ⟨fun s => by simp [cleans], fun s b => by simp [exA, drainedBy, pendingDrain], fun s => by simp [covers]⟩
theorem noExcuse_procSend (k : Nat) (r : List Nat) : noExcuse (some (.procSend k r)) := by
  refine ⟨fun s => by simp [cleans], fun s b => by simp [exA, drainedBy, pendingDrain], fun s => by simp [covers]⟩

theorem quiet_none : quiet none := by simp [quiet, isRec, recInfo, pendingDrain]
theorem quiet_startSend (k : Nat) : quiet (some (.startSend k)) := by simp [quiet, isRec, recInfo, pendingDrain]
theorem quiet_startPersist (k : Nat) : quiet (some (.startPersist k)) := by simp [quiet, isRec, recInfo, pendingDrain]
theorem quiet_stopPersist (k : Nat) : quiet (some (.stopPersist k)) := by simp [quiet, isRec, recInfo, pendingDrain]
theorem quiet_stopSend (k : Nat) : quiet (some (.stopSend k)) := by simp [quiet, isRec, recInfo, pendingDrain]
theorem quiet_stopDelete (k : Nat) (b : Bool) : quiet (some (.stopDelete k b)) := by
  simp [quiet, isRec, recInfo, pendingDrain]
theorem quiet_stopRemove (k : Nat) (b : Bool) : quiet (some (.stopRemove k b)) := by
  simp [quiet, isRec, recInfo, pendingDrain]
theorem quiet_intSend (k : Nat) : quiet (some (.intSend k)) := by simp [quiet, isRec, recInfo, pendingDrain]
theorem quiet_procRemove (k : Nat) (r : List Nat) : quiet (some (.procRemove k r)) := by
  simp [quiet, isRec, recInfo, pendingDrain]
theorem quiet_nextProc (ps : List PRec) (rest : List Nat) : quiet (nextProc ps rest) := by
  induction rest with
  | nil => exact quiet_none
  | cons id rest ih =>
    simp only [nextProc]
    split
    · simp [quiet, isRec, recInfo, pendingDrain]
    · exact ih

theorem noExcuse_nextProc (ps : List PRec) (rest : List Nat) : noExcuse (nextProc ps rest) := by
  induction rest with
  | nil => exact noExcuse_none
  | cons id rest ih =>
    simp only [nextProc]
    split
    · exact noExcuse_procSend _ _
    · exact ih

/-- `nd_gen` for a step that leaves a frame without excuses and enters a frame outside recovery/drain -/
theorem nd_plain {σ σ' : State} (h : ND σ) (hne : noExcuse σ.vol.pc) (hq : quiet σ'.vol.pc)
    (ht : σ'.tainted = σ.tainted)
    (hL : ∀ s, stopIn σ'.log s ↔ stopIn σ.log s)
    (hC : ∀ s, stopCount σ'.log s = stopCount σ.log s)
    (hA : ∀ s, s ∉ σ.tainted → AS σ' s → AS σ s ∨ (¬ stopIn σ.log s ∧ ¬ PS σ' s ∧ ¬ QS σ' s))
    (hF : ∀ s, s ∉ σ.tainted → FS σ' s → FS σ s ∨ ¬ stopIn σ.log s)
    (hP : ∀ p ∈ σ'.vol.pending, (∃ q ∈ σ.vol.pending, q.id = p.id ∧ q.req = p.req) ∨ p.req.kind ≠ .stop ∨
      (p.req.sid ∉ σ.tainted → NewStop σ σ' p))
    (hPid : ∀ s, s ∉ σ.tainted → ¬ PS σ s →
      ∀ p ∈ σ'.vol.pending, ∀ q ∈ σ'.vol.pending, isStop p s → isStop q s → p.id = q.id)
    (hQ : σ'.dur.pfile = σ.dur.pfile) : ND σ' := by
  apply nd_gen h ht hL hC hA hF hP hPid
  · intro ps' hps'; left; rw [← hQ]; exact hps'
  · intro s _ _ hc; exact absurd hc (hne.1 s)
  · intro s b hc; exact absurd hc (hne.2.1 s b)
  · intro s hc; exact absurd hc (hne.2.2 s)
  · intro hr; exact absurd hr hq.1
  · intro recd cur hr; rw [hq.2.1] at hr; simp at hr
  · intro l hl; rw [hq.2.2] at hl; simp at hl

/-- the log's Stop part does not change when a non-Stop record is appended -/
theorem stopIn_snoc_nonstop {log : List Rec} {r : Rec} (hk : r.kind ≠ .stop) (s : Nat) :
    stopIn (log ++ [r]) s ↔ stopIn log s := by
  rw [stopIn_snoc]
  constructor
  · rintro (h | ⟨h, _⟩)
    · exact h
    · exact absurd h hk
  · exact Or.inl

theorem stopCount_snoc_nonstop {log : List Rec} {r : Rec} (hk : r.kind ≠ .stop) (s : Nat) :
    stopCount (log ++ [r]) s = stopCount log s := by
  rw [stopCount_snoc]
  have : isStopOf s r = false := by
    simp only [isStopOf, Bool.and_eq_false_iff]
    left; simpa using hk
  simp [this]



/-- a step that creates no source of a Stop and accepts none -/
theorem nd_sub {σ σ' : State} (h : ND σ)
    (ht : σ'.tainted = σ.tainted)
    (hL : ∀ s, stopIn σ'.log s ↔ stopIn σ.log s)
    (hC : ∀ s, stopCount σ'.log s = stopCount σ.log s)
    (hA : ∀ s, AS σ' s → AS σ s) (hF : ∀ s, FS σ' s → FS σ s)
    (hP : ∀ p ∈ σ'.vol.pending, (∃ q ∈ σ.vol.pending, q.id = p.id ∧ q.req = p.req) ∨ p.req.kind ≠ .stop)
    (hQ : σ'.dur.pfile = σ.dur.pfile ∨ σ'.dur.pfile = none)
    (hcl : ∀ s, s ∉ σ.tainted → stopIn σ.log s → cleans σ.vol.pc s → cleans σ'.vol.pc s ∨ ¬ FS σ' s)
    (hex : ∀ s b, exA σ.vol.pc s b → exA σ'.vol.pc s b ∨ ¬ AS σ' s)
    (hcv : ∀ s, covers σ.vol.pc s → covers σ'.vol.pc s ∨ ¬ QS σ' s)
    (hr1 : isRec σ'.vol.pc → σ'.vol.sessions = [])
    (hr2 : ∀ recd cur, recInfo σ'.vol.pc = some (recd, cur) →
      (∀ x ∈ recd, ¬ FS σ' x) ∧ (∀ p ∈ σ'.vol.pending, ∀ s, isStop p s → s ∈ recd ∨ cur = some s))
    (hdr : ∀ l, pendingDrain σ'.vol.pc = some l → l.Nodup) : ND σ' := by
  apply nd_gen h ht hL hC (fun s _ hs => Or.inl (hA s hs)) (fun s _ hs => Or.inl (hF s hs))
  · intro p hp
    rcases hP p hp with h1 | h1
    · exact Or.inl h1
    · exact Or.inr (Or.inl h1)
  · intro s _ hps p hp q _ h1 _
    rcases hP p hp with ⟨p0, hp0, _, e⟩ | h2
    · exact absurd ⟨p0, hp0, by unfold isStop; rw [e]; exact h1⟩ hps
    · exact absurd h1.1 h2
  · intro ps' hps'
    rcases hQ with e | e
    · left; rw [← e]; exact hps'
    · rw [e] at hps'; simp at hps'
  · exact hcl
  · exact hex
  · exact hcv
  · exact hr1
  · exact hr2
  · exact hdr

/-- `nd_sub` when the frame left has no excuses and the frame entered is outside recovery and drain -/
theorem nd_sub_plain {σ σ' : State} (h : ND σ) (hne : noExcuse σ.vol.pc) (hq : quiet σ'.vol.pc)
    (ht : σ'.tainted = σ.tainted)
    (hL : ∀ s, stopIn σ'.log s ↔ stopIn σ.log s)
    (hC : ∀ s, stopCount σ'.log s = stopCount σ.log s)
    (hA : ∀ s, AS σ' s → AS σ s) (hF : ∀ s, FS σ' s → FS σ s)
    (hP : ∀ p ∈ σ'.vol.pending, (∃ q ∈ σ.vol.pending, q.id = p.id ∧ q.req = p.req) ∨ p.req.kind ≠ .stop)
    (hQ : σ'.dur.pfile = σ.dur.pfile ∨ σ'.dur.pfile = none) : ND σ' := by
  apply nd_sub h ht hL hC hA hF hP hQ
  · intro s _ _ hc; exact absurd hc (hne.1 s)
  · intro s b hc; exact absurd hc (hne.2.1 s b)
  · intro s hc; exact absurd hc (hne.2.2 s)
  · intro hr; exact absurd hr hq.1
  · intro recd cur hr; rw [hq.2.1] at hr; simp at hr
  · intro l hl; rw [hq.2.2] at hl; simp at hl

/-! ## the micro-steps -/

/-- sending (or queueing) a record that is not a Stop -/
theorem nd_send_nonstop {σ : State} (h : ND σ) (hne : noExcuse σ.vol.pc) (r : Rec) (a : Bool)
    (hk : r.kind ≠ .stop) (pc' : Option Frame) (hq : quiet pc') : ND (setPc (send σ r a false) pc') := by
  cases a with
  | true =>
    apply nd_sub_plain (σ' := setPc (send σ r true false) pc') h hne hq rfl
    · intro s; exact stopIn_snoc_nonstop hk s
    · intro s; exact stopCount_snoc_nonstop hk s
    · exact fun s hs => hs
    · exact fun s hs => hs
    · intro p hp; exact Or.inl ⟨p, hp, rfl, rfl⟩
    · exact Or.inl rfl
  | false =>
    apply nd_sub_plain (σ' := setPc (send σ r false false) pc') h hne hq rfl
    · intro s; exact Iff.rfl
    · intro s; rfl
    · exact fun s hs => hs
    · exact fun s hs => hs
    · intro p hp
      simp only [setPc, send, enqueue, Bool.false_eq_true, if_false, List.mem_cons] at hp
      rcases hp with e | e
      · subst e; exact Or.inr hk
      · exact Or.inl ⟨p, e, rfl, rfl⟩
    · exact Or.inl rfl

theorem nd_tickStartSend {σ : State} (h : ND σ) {k : Nat} (heq : σ.vol.pc = some (.startSend k)) (a : Bool) :
    ND (tickStartSend σ k a) := by
  have hne : noExcuse σ.vol.pc := by rw [heq]; exact noExcuse_startSend k
  unfold tickStartSend
  split
  · exact nd_sub_plain (σ' := setPc σ none) h hne quiet_none rfl (fun _ => Iff.rfl) (fun _ => rfl)
      (fun s hs => hs) (fun s hs => hs) (fun p hp => Or.inl ⟨p, hp, rfl, rfl⟩) (Or.inl rfl)
  · exact nd_send_nonstop h hne _ a (by simp) _ (quiet_startPersist k)

/-- persisting a session that is in memory, from a frame that has no excuse for it -/
theorem nd_persist {σ : State} (h : ND σ) (hne : noExcuse σ.vol.pc) (k : Nat) (pc' : Option Frame)
    (hq : quiet pc') (st : List Nat) :
    ND (setPc { (persistSession σ k) with started := st } pc') := by
  have pl : (persistSession σ k).log = σ.log ∧ (persistSession σ k).vol = σ.vol ∧
      (persistSession σ k).tainted = σ.tainted ∧ (persistSession σ k).dur.pfile = σ.dur.pfile := by
    unfold persistSession; split <;> exact ⟨rfl, rfl, rfl, rfl⟩
  apply nd_plain (σ' := setPc { (persistSession σ k) with started := st } pc') h hne hq
  · exact pl.2.2.1
  · intro s; show stopIn (persistSession σ k).log s ↔ _; rw [pl.1]
  · intro s; show stopCount (persistSession σ k).log s = _; rw [pl.1]
  · intro s _ hs
    left
    have : (setPc { (persistSession σ k) with started := st } pc').vol.sessions = σ.vol.sessions := by
      show (persistSession σ k).vol.sessions = _; rw [pl.2.1]
    unfold AS at hs ⊢; rw [this] at hs; exact hs
  · intro s ht hs
    have hfiles : (setPc { (persistSession σ k) with started := st } pc').dur.files =
        (persistSession σ k).dur.files := rfl
    unfold FS at hs; rw [hfiles] at hs
    unfold persistSession at hs
    split at hs
    · exact Or.inl hs
    · rename_i x hx
      simp only [lookup_insert] at hs
      split at hs
      · rename_i e
        subst e
        right
        intro hl
        have := (h.per s ht).f hl (by unfold AS; rw [hx]; rfl)
        exact hne.2.1 s true this
      · exact Or.inl hs
  · intro p hp
    have : (setPc { (persistSession σ k) with started := st } pc').vol.pending = σ.vol.pending := by
      show (persistSession σ k).vol.pending = _; rw [pl.2.1]
    rw [this] at hp
    exact Or.inl ⟨p, hp, rfl, rfl⟩
  · intro s _ hps p hp q hq h1 _
    have : (setPc { (persistSession σ k) with started := st } pc').vol.pending = σ.vol.pending := by
      show (persistSession σ k).vol.pending = _; rw [pl.2.1]
    rw [this] at hp
    exact absurd ⟨p, hp, h1⟩ hps
  · exact pl.2.2.2


theorem nd_tickStartPersist {σ : State} (h : ND σ) {k : Nat} (heq : σ.vol.pc = some (.startPersist k)) :
    ND (tickStartPersist σ k) := by
  have hne : noExcuse σ.vol.pc := by rw [heq]; exact noExcuse_startPersist k
  unfold tickStartPersist
  split
  · exact nd_sub_plain (σ' := setPc σ none) h hne quiet_none rfl (fun _ => Iff.rfl) (fun _ => rfl)
      (fun s hs => hs) (fun s hs => hs) (fun p hp => Or.inl ⟨p, hp, rfl, rfl⟩) (Or.inl rfl)
  · exact nd_persist h hne k none quiet_none _

theorem nd_tickStopPersist {σ : State} (h : ND σ) {k : Nat} (heq : σ.vol.pc = some (.stopPersist k)) :
    ND (tickStopPersist σ k) := by
  have hne : noExcuse σ.vol.pc := by rw [heq]; exact noExcuse_stopPersist k
  exact nd_persist h hne k (some (.stopSend k)) (quiet_stopSend k) (persistSession σ k).started

/-- queueing a Stop that could not be sent -/
theorem nd_enqueue_stop {σ : State} (h : ND σ) (r : Rec) (v : Bool) (hk : r.kind = .stop) (pc' : Option Frame)
    (f : State → State) (hf : ∀ τ, (f τ).tainted = τ.tainted ∧ (f τ).log = τ.log ∧ (f τ).vol = τ.vol ∧ (f τ).dur = τ.dur)
    (hn1 : r.sid ∉ σ.tainted → ¬ PS σ r.sid) (hn2 : r.sid ∉ σ.tainted → ¬ stopIn σ.log r.sid)
    (hn3 : r.sid ∉ σ.tainted → AS σ r.sid → exA pc' r.sid false)
    (hn4 : r.sid ∉ σ.tainted → QS σ r.sid → covers pc' r.sid)
    (hcl : ∀ s, s ∉ σ.tainted → stopIn σ.log s → cleans σ.vol.pc s → cleans pc' s ∨ ¬ FS σ s)
    (hex : ∀ s b, exA σ.vol.pc s b → exA pc' s b ∨ ¬ AS σ s)
    (hcv : ∀ s, covers σ.vol.pc s → covers pc' s ∨ ¬ QS σ s)
    (hr1 : isRec pc' → σ.vol.sessions = [])
    (hr2 : ∀ recd cur, recInfo pc' = some (recd, cur) →
      (∀ x ∈ recd, ¬ FS σ x) ∧ (cur = some r.sid ∨ r.sid ∈ recd) ∧
      (∀ p ∈ σ.vol.pending, ∀ s, isStop p s → s ∈ recd ∨ cur = some s))
    (hdr : ∀ l, pendingDrain pc' = some l → l.Nodup) :
    ND (setPc (enqueue (f σ) r v) pc') := by
  obtain ⟨f1, f2, f3, f4⟩ := hf σ
  have eA : ∀ s, AS (setPc (enqueue (f σ) r v) pc') s ↔ AS σ s := by
    intro s; unfold AS; show (lookup (f σ).vol.sessions s).isSome = true ↔ _; rw [f3]
  have eF : ∀ s, FS (setPc (enqueue (f σ) r v) pc') s ↔ FS σ s := by
    intro s; unfold FS; show (lookup (f σ).dur.files s).isSome = true ↔ _; rw [f4]
  have eQ : ∀ s, QS (setPc (enqueue (f σ) r v) pc') s ↔ QS σ s := by
    intro s; unfold QS; show (∃ ps, (f σ).dur.pfile = some ps ∧ _) ↔ _; rw [f4]
  have ePend : (setPc (enqueue (f σ) r v) pc').vol.pending =
      { id := (f σ).clock + 1, req := r, retries := 0, viaRecovery := v } :: σ.vol.pending := by
    show _ :: (f σ).vol.pending = _; rw [f3]
  apply nd_gen (σ' := setPc (enqueue (f σ) r v) pc') h
  · show (f σ).tainted = _; exact f1
  · intro s; show stopIn (f σ).log s ↔ _; rw [f2]
  · intro s; show stopCount (f σ).log s = _; rw [f2]
  · intro s _ hs; exact Or.inl ((eA s).mp hs)
  · intro s _ hs; exact Or.inl ((eF s).mp hs)
  · intro p hp
    rw [ePend] at hp
    rcases List.mem_cons.mp hp with e | e
    · subst e
      right; right
      intro ht
      exact ⟨hn1 ht, hn2 ht, fun ha => hn3 ht ((eA _).mp ha), fun hq => hn4 ht ((eQ _).mp hq)⟩
    · exact Or.inl ⟨p, e, rfl, rfl⟩
  · intro s _ hps p hp q hq h1 h2
    rw [ePend] at hp hq
    rcases List.mem_cons.mp hp with e | e
    · rcases List.mem_cons.mp hq with e' | e'
      · rw [e, e']
      · exact absurd ⟨q, e', h2⟩ hps
    · exact absurd ⟨p, e, h1⟩ hps
  · intro ps' hps'; left
    have : (setPc (enqueue (f σ) r v) pc').dur.pfile = σ.dur.pfile := by
      show (f σ).dur.pfile = _; rw [f4]
    rw [← this]; exact hps'
  · intro s ht hl hc
    rcases hcl s ht hl hc with h1 | h1
    · exact Or.inl h1
    · exact Or.inr (fun hh => h1 ((eF s).mp hh))
  · intro s b hc
    rcases hex s b hc with h1 | h1
    · exact Or.inl h1
    · exact Or.inr (fun hh => h1 ((eA s).mp hh))
  · intro s hc
    rcases hcv s hc with h1 | h1
    · exact Or.inl h1
    · exact Or.inr (fun hh => h1 ((eQ s).mp hh))
  · intro hr
    show (f σ).vol.sessions = []; rw [f3]; exact hr1 hr
  · intro recd cur hr
    obtain ⟨a1, a2, a3⟩ := hr2 recd cur hr
    refine ⟨fun x hx hh => a1 x hx ((eF x).mp hh), ?_⟩
    intro p hp s hst
    rw [ePend] at hp
    rcases List.mem_cons.mp hp with e | e
    · subst e
      have : s = r.sid := hst.2.symm
      subst this
      rcases a2 with h1 | h1
      · exact Or.inr h1
      · exact Or.inl h1
    · exact a3 p e s hst
  · exact hdr


theorem nd_tickStopSend {σ : State} (h : ND σ) {k : Nat} (heq : σ.vol.pc = some (.stopSend k)) (a : Bool) :
    ND (tickStopSend σ k a) := by
  have hne : noExcuse σ.vol.pc := by rw [heq]; exact noExcuse_stopSend k
  unfold tickStopSend
  split
  · exact nd_sub_plain (σ' := setPc σ none) h hne quiet_none rfl (fun _ => Iff.rfl) (fun _ => rfl)
      (fun s hs => hs) (fun s hs => hs) (fun p hp => Or.inl ⟨p, hp, rfl, rfl⟩) (Or.inl rfl)
  · rename_i x hx
    have hAS : AS σ k := by unfold AS; rw [hx]; rfl
    have noStop : k ∉ σ.tainted → ¬ stopIn σ.log k :=
      fun ht hl => hne.2.1 k true ((h.per k ht).f hl hAS)
    have noPS : k ∉ σ.tainted → ¬ PS σ k :=
      fun ht hp => hne.2.1 k false ((h.per k ht).h hp hAS)
    have noQS : k ∉ σ.tainted → ¬ QS σ k := fun ht => (h.per k ht).j hAS
    cases a with
    | true =>
      apply nd_ack (σ' := setPc (send σ (stopRec k x x.stopCause (counters σ k)) true false)
        (some (.stopDelete k true))) h (stopRec k x x.stopCause (counters σ k)) rfl rfl rfl noStop
        (fun s hs => hs) (fun s hs => hs) (fun p hp => ⟨p, hp, rfl, rfl⟩) rfl
      · exact noPS
      · intro _ _; rfl
      · intro _ _; exact Or.inl rfl
      · intro ht hq; exact absurd hq (noQS ht)
      · intro s _ _ hc; exact absurd hc (hne.1 s)
      · intro s b hc; exact absurd hc (hne.2.1 s b)
      · intro s hc; exact absurd hc (hne.2.2 s)
      · intro hr; exact absurd hr (quiet_stopDelete k true).1
      · intro recd cur hr; simp [setPc, recInfo] at hr
      · intro l hl; simp [setPc, pendingDrain] at hl
    | false =>
      have := nd_enqueue_stop h (stopRec k x x.stopCause (counters σ k)) false rfl (some (.stopDelete k false)) id
        (fun τ => ⟨rfl, rfl, rfl, rfl⟩) noPS noStop (fun _ _ => Or.inl rfl)
        (fun ht hq => absurd hq (noQS ht))
        (fun s _ _ hc => absurd hc (hne.1 s)) (fun s b hc => absurd hc (hne.2.1 s b))
        (fun s hc => absurd hc (hne.2.2 s))
        (fun hr => absurd hr (quiet_stopDelete k false).1)
        (fun recd cur hr => by simp [recInfo] at hr)
        (fun l hl => by simp [pendingDrain] at hl)
      exact this

theorem nd_tickStopDelete {σ : State} (h : ND σ) {k : Nat} {b : Bool}
    (heq : σ.vol.pc = some (.stopDelete k b)) : ND (tickStopDelete σ k b) := by
  unfold tickStopDelete
  have hA : ∀ s, AS (setPc { σ with vol := { σ.vol with sessions := AMap.erase σ.vol.sessions k } }
      (some (.stopRemove k b))) s → AS σ s ∧ s ≠ k := by
    intro s hs
    unfold AS at hs ⊢
    simp only [setPc, lookup_erase] at hs
    split at hs
    · simp at hs
    · rename_i e; exact ⟨hs, e⟩
  apply nd_sub (σ' := setPc { σ with vol := { σ.vol with sessions := AMap.erase σ.vol.sessions k } }
    (some (.stopRemove k b))) h rfl (fun _ => Iff.rfl) (fun _ => rfl) (fun s hs => (hA s hs).1)
    (fun s hs => hs) (fun p hp => Or.inl ⟨p, hp, rfl, rfl⟩) (Or.inl rfl)
  · intro s _ _ hc
    rw [heq] at hc
    left
    cases b <;> simp_all [cleans, setPc]
  · intro s b' hc
    rw [heq] at hc
    right
    intro hs
    have := hA s hs
    rcases hc with e | ⟨l, hl, _⟩
    · simp only [Option.some.injEq, Frame.stopDelete.injEq] at e
      exact this.2 e.1.symm
    · simp [pendingDrain] at hl
  · intro s hc; rw [heq] at hc; simp [covers] at hc
  · intro hr; exact absurd hr (quiet_stopRemove k b).1
  · intro recd cur hr; simp [setPc, recInfo] at hr
  · intro l hl; simp [setPc, pendingDrain] at hl

theorem nd_tickStopRemove {σ : State} (h : ND σ) {k : Nat} {b : Bool}
    (heq : σ.vol.pc = some (.stopRemove k b)) : ND (tickStopRemove σ k b) := by
  unfold tickStopRemove
  have hF : ∀ s, FS (setPc (if b = true then removeFile σ k else σ) none) s → FS σ s ∧ (b = true → s ≠ k) := by
    intro s hs
    unfold FS at hs ⊢
    cases b with
    | false => exact ⟨hs, fun e => by cases e⟩
    | true =>
      simp only [setPc, removeFile, if_true, lookup_erase] at hs
      split at hs
      · simp at hs
      · rename_i e; exact ⟨hs, fun _ => e⟩
  apply nd_sub (σ' := setPc (if b = true then removeFile σ k else σ) none) h
  · cases b <;> rfl
  · intro s; cases b <;> exact Iff.rfl
  · intro s; cases b <;> rfl
  · intro s hs; cases b <;> exact hs
  · exact fun s hs => (hF s hs).1
  · intro p hp; cases b <;> exact Or.inl ⟨p, hp, rfl, rfl⟩
  · left; cases b <;> rfl
  · intro s _ _ hc
    rw [heq] at hc
    right
    intro hs
    cases b with
    | false => simp [cleans] at hc
    | true =>
      simp only [cleans] at hc
      exact (hF s hs).2 rfl hc.symm
  · intro s b' hc
    rw [heq] at hc
    rcases hc with e | ⟨l, hl, _⟩
    · simp at e
    · simp [pendingDrain] at hl
  · intro s hc; rw [heq] at hc; simp [covers] at hc
  · intro hr; exact absurd hr quiet_none.1
  · intro recd cur hr; simp [setPc, recInfo] at hr
  · intro l hl; simp [setPc, pendingDrain] at hl


theorem nd_tickIntSend {σ : State} (h : ND σ) {k : Nat} (heq : σ.vol.pc = some (.intSend k)) (a : Bool) :
    ND (tickIntSend σ k a) := by
  have hne : noExcuse σ.vol.pc := by rw [heq]; exact noExcuse_intSend k
  unfold tickIntSend
  split
  · exact nd_sub_plain (σ' := setPc σ none) h hne quiet_none rfl (fun _ => Iff.rfl) (fun _ => rfl)
      (fun s hs => hs) (fun s hs => hs) (fun p hp => Or.inl ⟨p, hp, rfl, rfl⟩) (Or.inl rfl)
  · rename_i x hx
    dsimp only
    split
    · apply nd_sub_plain h hne
      · exact quiet_none
      · rfl
      · intro s; exact stopIn_snoc_nonstop (by simp) s
      · intro s; exact stopCount_snoc_nonstop (by simp) s
      · intro s hs
        unfold AS at hs ⊢
        simp only [setPc, accept, lookup_insert] at hs
        split at hs
        · rename_i e; subst e; rw [hx]; rfl
        · exact hs
      · exact fun s hs => hs
      · intro p hp; exact Or.inl ⟨p, hp, rfl, rfl⟩
      · exact Or.inl rfl
    · apply nd_sub_plain h hne
      · exact quiet_none
      · rfl
      · exact fun _ => Iff.rfl
      · exact fun _ => rfl
      · exact fun s hs => hs
      · exact fun s hs => hs
      · intro p hp
        simp only [setPc, enqueue, List.mem_cons] at hp
        rcases hp with e | e
        · subst e; exact Or.inr (by simp)
        · exact Or.inl ⟨p, e, rfl, rfl⟩
      · exact Or.inl rfl

theorem nd_tickProcSend {σ : State} (h : ND σ) {id : Nat} {rest : List Nat}
    (heq : σ.vol.pc = some (.procSend id rest)) (a : Bool) : ND (tickProcSend σ id rest a) := by
  have hne : noExcuse σ.vol.pc := by rw [heq]; exact noExcuse_procSend id rest
  unfold tickProcSend
  split
  · exact nd_sub_plain (σ' := setPc σ _) h hne (quiet_nextProc _ _) rfl (fun _ => Iff.rfl) (fun _ => rfl)
      (fun s hs => hs) (fun s hs => hs) (fun p hp => Or.inl ⟨p, hp, rfl, rfl⟩) (Or.inl rfl)
  · rename_i p hp
    have hm := findP_mem hp
    have hid := findP_id hp
    dsimp only
    split
    · -- acknowledged
      split
      · rename_i hk
        have hk' : p.req.kind = .stop := by simpa using hk
        have hPS : PS σ p.req.sid := ⟨p, hm, hk', rfl⟩
        apply nd_ack h p.req hk'
        · rfl
        · rfl
        · intro ht hl; exact (h.per _ ht).d hl hPS
        · exact fun s hs => hs
        · exact fun s hs => hs
        · intro q hq; exact ⟨q, mem_eraseP hq, rfl, rfl⟩
        · rfl
        · intro ht ⟨q, hq, hst⟩
          have hq' : q ∈ eraseP σ.vol.pending id := hq
          have h1 := (h.per _ ht).b q (mem_eraseP hq') p hm hst ⟨hk', rfl⟩
          have h2 : q.id ≠ id := by
            have := (List.mem_filter.mp hq').2
            simpa using this
          exact h2 (by rw [h1, hid])
        · intro _ _; rfl
        · intro ht ha
          exact absurd ((h.per _ ht).h hPS ha) (hne.2.1 _ false)
        · intro ht hq
          exact absurd ((h.per _ ht).i hPS hq) (hne.2.2 _)
        · intro s _ _ hc; exact absurd hc (hne.1 s)
        · intro s b hc; exact absurd hc (hne.2.1 s b)
        · intro s hc; exact absurd hc (hne.2.2 s)
        · intro hr; exact absurd hr (quiet_procRemove _ _).1
        · intro recd cur hr; simp [setPc, recInfo] at hr
        · intro l hl; simp [setPc, pendingDrain] at hl
      · rename_i hk
        have hk' : p.req.kind ≠ .stop := by simpa using hk
        apply nd_sub_plain h hne
        · exact quiet_nextProc _ _
        · rfl
        · intro s; exact stopIn_snoc_nonstop hk' s
        · intro s; exact stopCount_snoc_nonstop hk' s
        · exact fun s hs => hs
        · exact fun s hs => hs
        · intro q hq; exact Or.inl ⟨q, mem_eraseP hq, rfl, rfl⟩
        · exact Or.inl rfl
    · -- not acknowledged: retry count, or abandoned
      split
      · apply nd_sub_plain h hne
        · exact quiet_nextProc _ _
        · rfl
        · exact fun _ => Iff.rfl
        · exact fun _ => rfl
        · exact fun s hs => hs
        · exact fun s hs => hs
        · intro q hq; exact Or.inl ⟨q, mem_eraseP hq, rfl, rfl⟩
        · exact Or.inl rfl
      · apply nd_sub_plain h hne
        · exact quiet_nextProc _ _
        · rfl
        · exact fun _ => Iff.rfl
        · exact fun _ => rfl
        · exact fun s hs => hs
        · exact fun s hs => hs
        · intro q hq
          simp only [setPc, noteOrd, List.mem_map] at hq
          obtain ⟨q0, hq0, e⟩ := hq
          left
          refine ⟨q0, hq0, ?_, ?_⟩ <;> (split at e <;> (subst e; rfl))
        · exact Or.inl rfl

theorem nd_tickProcRemove {σ : State} (h : ND σ) {k : Nat} {rest : List Nat}
    (heq : σ.vol.pc = some (.procRemove k rest)) : ND (tickProcRemove σ k rest) := by
  unfold tickProcRemove
  have hq := quiet_nextProc σ.vol.pending rest
  have hn := noExcuse_nextProc σ.vol.pending rest
  by_cases hA : (lookup σ.vol.sessions k).isSome = true
  · simp only [hA, if_true]
    apply nd_sub (σ' := setPc σ (nextProc σ.vol.pending rest)) h rfl (fun _ => Iff.rfl) (fun _ => rfl)
      (fun s hs => hs) (fun s hs => hs) (fun p hp => Or.inl ⟨p, hp, rfl, rfl⟩) (Or.inl rfl)
    · intro s ht hl hc
      rw [heq] at hc
      simp only [cleans] at hc
      subst hc
      -- an accepted Stop and the session still in memory: the frame has no excuse for that
      have := (h.per k ht).f hl hA
      rw [heq] at this
      rcases this with e | ⟨l, hl', _⟩
      · simp at e
      · simp [pendingDrain] at hl'
    · intro s b hc
      rw [heq] at hc
      rcases hc with e | ⟨l, hl', _⟩
      · simp at e
      · simp [pendingDrain] at hl'
    · intro s hc; rw [heq] at hc; simp [covers] at hc
    · intro hr; exact absurd hr hq.1
    · intro recd cur hr; simp only [setPc] at hr; rw [hq.2.1] at hr; simp at hr
    · intro l hl; simp only [setPc] at hl; rw [hq.2.2] at hl; simp at hl
  · simp only [hA]
    apply nd_sub (σ' := setPc (removeFile σ k) (nextProc (removeFile σ k).vol.pending rest)) h rfl
      (fun _ => Iff.rfl) (fun _ => rfl) (fun s hs => hs)
    · intro s hs
      unfold FS at hs ⊢
      simp only [setPc, removeFile, lookup_erase] at hs
      split at hs
      · simp at hs
      · exact hs
    · exact fun p hp => Or.inl ⟨p, hp, rfl, rfl⟩
    · exact Or.inl rfl
    · intro s _ _ hc
      rw [heq] at hc
      simp only [cleans] at hc
      subst hc
      right
      unfold FS
      simp [setPc, removeFile]
    · intro s b hc
      rw [heq] at hc
      rcases hc with e | ⟨l, hl', _⟩
      · simp at e
      · simp [pendingDrain] at hl'
    · intro s hc; rw [heq] at hc; simp [covers] at hc
    · intro hr; exact absurd hr hq.1
    · intro recd cur hr
      have : recInfo (nextProc σ.vol.pending rest) = none := hq.2.1
      simp only [setPc, removeFile] at hr
      rw [this] at hr; simp at hr
    · intro l hl
      have : pendingDrain (nextProc σ.vol.pending rest) = none := hq.2.2
      simp only [setPc, removeFile] at hl
      rw [this] at hl; simp at hl


/-! ### the shutdown drain -/

theorem pendingDrain_nextDrain (rest : List Nat) : pendingDrain (some (nextDrain rest)) = some rest := by
  cases rest <;> rfl
theorem recInfo_nextDrain (rest : List Nat) : recInfo (some (nextDrain rest)) = none := by
  cases rest <;> rfl
theorem cleans_nextDrain (rest : List Nat) (s : Nat) : ¬ cleans (some (nextDrain rest)) s := by
  cases rest <;> simp [nextDrain, cleans]
theorem covers_nextDrain (rest : List Nat) (s : Nat) : ¬ covers (some (nextDrain rest)) s := by
  cases rest <;> simp [nextDrain, covers]

theorem exA_drain_transfer {pc pc' : Option Frame} {l l' : List Nat} (h1 : pendingDrain pc = some l)
    (h2 : pendingDrain pc' = some l') (hsub : ∀ x ∈ l', x ∈ l) (hns : ∀ s b, pc ≠ some (.stopDelete s b))
    (s : Nat) (b : Bool) (hc : exA pc s b) : exA pc' s b := by
  rcases hc with e | ⟨l0, hl0, hn⟩
  · exact absurd e (hns s b)
  · rw [h1] at hl0
    simp only [Option.some.injEq] at hl0
    subst hl0
    exact Or.inr ⟨l', h2, fun hx => hn (hsub s hx)⟩

theorem nd_tickDrainSend {σ : State} (h : ND σ) {k : Nat} {rest : List Nat}
    (heq : σ.vol.pc = some (.drainSend k rest)) (a : Bool) : ND (tickDrainSend σ k rest a) := by
  have hpd : pendingDrain σ.vol.pc = some (k :: rest) := by rw [heq]; rfl
  have hnd : (k :: rest).Nodup := h.dr _ hpd
  have hkr : k ∉ rest := (List.nodup_cons.mp hnd).1
  have hrn : rest.Nodup := (List.nodup_cons.mp hnd).2
  have hns : ∀ s b, σ.vol.pc ≠ some (.stopDelete s b) := by intro s b; rw [heq]; simp
  have noCl : ∀ s, ¬ cleans σ.vol.pc s := by intro s; rw [heq]; simp [cleans]
  have noCv : ∀ s, ¬ covers σ.vol.pc s := by intro s; rw [heq]; simp [covers]
  have noEx : ∀ b, ¬ exA σ.vol.pc k b := by
    intro b hc
    rcases hc with e | ⟨l, hl, hn⟩
    · exact hns k b e
    · rw [hpd] at hl; simp only [Option.some.injEq] at hl; subst hl; exact hn List.mem_cons_self
  unfold tickDrainSend
  split
  · apply nd_sub (σ' := setPc σ (some (nextDrain rest))) h rfl (fun _ => Iff.rfl) (fun _ => rfl)
      (fun s hs => hs) (fun s hs => hs) (fun p hp => Or.inl ⟨p, hp, rfl, rfl⟩) (Or.inl rfl)
    · intro s _ _ hc; exact absurd hc (noCl s)
    · intro s b hc
      exact Or.inl (exA_drain_transfer hpd (pendingDrain_nextDrain rest) (fun x hx => List.mem_cons_of_mem _ hx) hns s b hc)
    · intro s hc; exact absurd hc (noCv s)
    · intro hr; cases rest <;> simp [setPc, nextDrain, isRec] at hr
    · intro recd cur hr; simp only [setPc] at hr; rw [recInfo_nextDrain] at hr; simp at hr
    · intro l hl; simp only [setPc] at hl; rw [pendingDrain_nextDrain] at hl
      simp only [Option.some.injEq] at hl; subst hl; exact hrn
  · rename_i x hx
    have hAS : AS σ k := by unfold AS; rw [hx]; rfl
    have noStop : k ∉ σ.tainted → ¬ stopIn σ.log k := fun ht hl => noEx true ((h.per k ht).f hl hAS)
    have noPS : k ∉ σ.tainted → ¬ PS σ k := fun ht hp => noEx false ((h.per k ht).h hp hAS)
    have noQS : k ∉ σ.tainted → ¬ QS σ k := fun ht => (h.per k ht).j hAS
    dsimp only
    split
    · apply nd_ack h (stopRec k x 11 (counters (noteOrd σ k) k)) rfl
      · rfl
      · rfl
      · exact noStop
      · exact fun s hs => hs
      · exact fun s hs => hs
      · exact fun p hp => ⟨p, hp, rfl, rfl⟩
      · rfl
      · exact noPS
      · intro _ _; rfl
      · intro _ _; exact Or.inr ⟨rest, rfl, hkr⟩
      · intro ht hq; exact absurd hq (noQS ht)
      · intro s _ _ hc; exact absurd hc (noCl s)
      · intro s b hc
        exact Or.inl (exA_drain_transfer hpd (pc' := some (.drainRemove k rest)) rfl
          (fun x hx => List.mem_cons_of_mem _ hx) hns s b hc)
      · intro s hc; exact absurd hc (noCv s)
      · intro hr; simp [setPc, isRec] at hr
      · intro recd cur hr; simp [setPc, recInfo] at hr
      · intro l hl
        simp only [setPc, pendingDrain, Option.some.injEq] at hl
        subst hl; exact hrn
    · have := nd_enqueue_stop h (stopRec k x 11 (counters (noteOrd σ k) k)) false rfl (some (nextDrain rest))
        (fun τ => noteOrd τ k) (fun τ => ⟨rfl, rfl, rfl, rfl⟩) noPS noStop
        (fun _ _ => Or.inr ⟨rest, pendingDrain_nextDrain rest, hkr⟩)
        (fun ht hq => absurd hq (noQS ht))
        (fun s _ _ hc => absurd hc (noCl s))
        (fun s b hc => Or.inl (exA_drain_transfer hpd (pendingDrain_nextDrain rest)
          (fun x hx => List.mem_cons_of_mem _ hx) hns s b hc))
        (fun s hc => absurd hc (noCv s))
        (fun hr => by cases rest <;> simp [nextDrain, isRec] at hr)
        (fun recd cur hr => by rw [recInfo_nextDrain] at hr; simp at hr)
        (fun l hl => by
          rw [pendingDrain_nextDrain] at hl
          simp only [Option.some.injEq] at hl; subst hl; exact hrn)
      exact this

theorem nd_tickDrainRemove {σ : State} (h : ND σ) {k : Nat} {rest : List Nat}
    (heq : σ.vol.pc = some (.drainRemove k rest)) : ND (tickDrainRemove σ k rest) := by
  have hpd : pendingDrain σ.vol.pc = some rest := by rw [heq]; rfl
  have hrn : rest.Nodup := h.dr _ hpd
  have hns : ∀ s b, σ.vol.pc ≠ some (.stopDelete s b) := by intro s b; rw [heq]; simp
  unfold tickDrainRemove
  apply nd_sub (σ' := setPc (removeFile σ k) (some (nextDrain rest))) h rfl (fun _ => Iff.rfl) (fun _ => rfl)
    (fun s hs => hs)
  · intro s hs
    unfold FS at hs ⊢
    simp only [setPc, removeFile, lookup_erase] at hs
    split at hs
    · simp at hs
    · exact hs
  · exact fun p hp => Or.inl ⟨p, hp, rfl, rfl⟩
  · exact Or.inl rfl
  · intro s _ _ hc
    rw [heq] at hc
    simp only [cleans] at hc
    subst hc
    right; unfold FS; simp [setPc, removeFile]
  · intro s b hc
    exact Or.inl (exA_drain_transfer hpd (pendingDrain_nextDrain rest) (fun x hx => hx) hns s b hc)
  · intro s hc; rw [heq] at hc; simp [covers] at hc
  · intro hr; cases rest <;> simp [setPc, nextDrain, isRec] at hr
  · intro recd cur hr; simp only [setPc] at hr; rw [recInfo_nextDrain] at hr; simp at hr
  · intro l hl; simp only [setPc] at hl; rw [pendingDrain_nextDrain] at hl
    simp only [Option.some.injEq] at hl; subst hl; exact hrn

theorem nd_tickPersistPending {σ : State} (h : ND σ) (heq : σ.vol.pc = some .persistPending) :
    ND (tickPersistPending σ) := by
  unfold tickPersistPending
  apply nd_gen h
  · rfl
  · exact fun _ => Iff.rfl
  · exact fun _ => rfl
  · intro s _ hs; unfold AS at hs; simp at hs
  · intro s _ hs
    left
    unfold FS at hs ⊢
    dsimp only at hs
    split at hs <;> exact hs
  · intro p hp; simp at hp
  · intro s _ _ p hp; simp at hp
  · intro ps' hps'
    dsimp only at hps'
    split at hps'
    · exact Or.inl hps'
    · right
      simp only [Option.some.injEq] at hps'
      subst hps'
      exact ⟨fun p hp => ⟨p, hp, rfl, rfl⟩, rfl, rfl⟩
  · intro s _ _ hc; rw [heq] at hc; simp [cleans] at hc
  · intro s b _; right; unfold AS; simp
  · intro s hc; rw [heq] at hc; simp [covers] at hc
  · intro hr; simp [isRec] at hr
  · intro recd cur hr; simp [recInfo] at hr
  · intro l hl; simp [pendingDrain] at hl


/-! ### the recovery procedure -/

theorem recInfo_nextRec (recd order rest : List Nat) : recInfo (some (nextRec recd order rest)) = some (recd, none) := by
  cases rest <;> rfl
theorem covers_nextRec (recd order rest : List Nat) (s : Nat) :
    covers (some (nextRec recd order rest)) s ↔ s ∈ recd := by
  cases rest <;> rfl
theorem pendingDrain_nextRec (recd order rest : List Nat) : pendingDrain (some (nextRec recd order rest)) = none := by
  cases rest <;> rfl
theorem cleans_nextRec (recd order rest : List Nat) (s : Nat) : ¬ cleans (some (nextRec recd order rest)) s := by
  cases rest <;> simp [nextRec, cleans]

theorem nd_tickRecSend {σ : State} (h : ND σ) {k : Nat} {rest recd order : List Nat}
    (heq : σ.vol.pc = some (.recSend k rest recd order)) (a : Bool) : ND (tickRecSend σ k rest recd order a) := by
  have hrec : isRec σ.vol.pc := by rw [heq]; trivial
  have hsess : σ.vol.sessions = [] := h.r1 hrec
  have noAS : ∀ s, ¬ AS σ s := by intro s; unfold AS; rw [hsess]; simp
  obtain ⟨r2a, r2b⟩ := h.r2 recd none (by rw [heq]; rfl)
  have noCl : ∀ s, ¬ cleans σ.vol.pc s := by intro s; rw [heq]; simp [cleans]
  have noEx : ∀ s b, ¬ exA σ.vol.pc s b := by
    intro s b hc; rw [heq] at hc
    rcases hc with e | ⟨l, hl, _⟩
    · simp at e
    · simp [pendingDrain] at hl
  have hcv : ∀ s, covers σ.vol.pc s ↔ s ∈ recd := by intro s; rw [heq]; rfl
  unfold tickRecSend
  split
  · apply nd_sub (σ' := setPc σ (some (nextRec recd order rest))) h rfl (fun _ => Iff.rfl) (fun _ => rfl)
      (fun s hs => hs) (fun s hs => hs) (fun p hp => Or.inl ⟨p, hp, rfl, rfl⟩) (Or.inl rfl)
    · intro s _ _ hc; exact absurd hc (noCl s)
    · intro s b hc; exact absurd hc (noEx s b)
    · intro s hc; left; exact (covers_nextRec recd order rest s).mpr ((hcv s).mp hc)
    · intro _; exact hsess
    · intro recd' cur hr
      simp only [setPc] at hr
      rw [recInfo_nextRec] at hr
      simp only [Option.some.injEq, Prod.mk.injEq] at hr
      obtain ⟨e1, e2⟩ := hr
      subst e1; subst e2
      exact ⟨r2a, r2b⟩
    · intro l hl; simp only [setPc] at hl; rw [pendingDrain_nextRec] at hl; simp at hl
  · rename_i x hx
    have hFS : FS σ k := by unfold FS; rw [hx]; rfl
    have knr : k ∉ recd := fun hm => r2a k hm hFS
    have noStop : k ∉ σ.tainted → ¬ stopIn σ.log k := fun ht hl => noCl k ((h.per k ht).e hl hFS)
    have noPS : ¬ PS σ k := by
      rintro ⟨p, hp, hst⟩
      rcases r2b p hp k hst with h1 | h1
      · exact knr h1
      · simp at h1
    cases a with
    | true =>
      apply nd_ack (σ' := setPc (send σ (stopRec k x (if x.stopCause = 0 then 11 else x.stopCause)
        (x.lastIn, x.lastOut)) true true) (some (.recRemove k rest recd order))) h
        (stopRec k x (if x.stopCause = 0 then 11 else x.stopCause) (x.lastIn, x.lastOut)) rfl rfl rfl noStop
        (fun s hs => hs) (fun s hs => hs) (fun p hp => ⟨p, hp, rfl, rfl⟩) rfl
      · exact fun _ => noPS
      · intro _ _; rfl
      · intro _ ha; exact absurd ha (noAS k)
      · intro _ _; exact Or.inl rfl
      · intro s _ _ hc; exact absurd hc (noCl s)
      · intro s b hc; exact absurd hc (noEx s b)
      · intro s hc; left; exact Or.inr ((hcv s).mp hc)
      · intro _; exact hsess
      · intro recd' cur hr
        simp only [setPc, recInfo, Option.some.injEq, Prod.mk.injEq] at hr
        obtain ⟨e1, e2⟩ := hr
        subst e1; subst e2
        refine ⟨r2a, ?_⟩
        intro p hp s hst
        rcases r2b p hp s hst with h1 | h1
        · exact Or.inl h1
        · simp at h1
      · intro l hl; simp [setPc, pendingDrain] at hl
    | false =>
      have := nd_enqueue_stop h (stopRec k x (if x.stopCause = 0 then 11 else x.stopCause) (x.lastIn, x.lastOut))
        true rfl (some (.recRemove k rest recd order)) id (fun τ => ⟨rfl, rfl, rfl, rfl⟩)
        (fun _ => noPS) noStop (fun _ ha => absurd ha (noAS k)) (fun _ _ => Or.inl rfl)
        (fun s _ _ hc => absurd hc (noCl s)) (fun s b hc => absurd hc (noEx s b))
        (fun s hc => Or.inl (Or.inr ((hcv s).mp hc)))
        (fun _ => hsess)
        (fun recd' cur hr => by
          simp only [recInfo, Option.some.injEq, Prod.mk.injEq] at hr
          obtain ⟨e1, e2⟩ := hr
          subst e1; subst e2
          refine ⟨r2a, Or.inl rfl, ?_⟩
          intro p hp s hst
          rcases r2b p hp s hst with h1 | h1
          · exact Or.inl h1
          · simp at h1)
        (fun l hl => by simp [pendingDrain] at hl)
      exact this

theorem nd_tickRecRemove {σ : State} (h : ND σ) {k : Nat} {rest recd order : List Nat}
    (heq : σ.vol.pc = some (.recRemove k rest recd order)) : ND (tickRecRemove σ k rest recd order) := by
  have hrec : isRec σ.vol.pc := by rw [heq]; trivial
  have hsess : σ.vol.sessions = [] := h.r1 hrec
  obtain ⟨r2a, r2b⟩ := h.r2 recd (some k) (by rw [heq]; rfl)
  unfold tickRecRemove
  apply nd_sub (σ' := setPc (removeFile σ k) (some (nextRec (k :: recd) order rest))) h rfl
    (fun _ => Iff.rfl) (fun _ => rfl) (fun s hs => hs)
  · intro s hs
    unfold FS at hs ⊢
    simp only [setPc, removeFile, lookup_erase] at hs
    split at hs
    · simp at hs
    · exact hs
  · exact fun p hp => Or.inl ⟨p, hp, rfl, rfl⟩
  · exact Or.inl rfl
  · intro s _ _ hc
    rw [heq] at hc
    simp only [cleans] at hc
    subst hc
    right; unfold FS; simp [setPc, removeFile]
  · intro s b hc
    rw [heq] at hc
    rcases hc with e | ⟨l, hl, _⟩
    · simp at e
    · simp [pendingDrain] at hl
  · intro s hc
    rw [heq] at hc
    left
    apply (covers_nextRec (k :: recd) order rest s).mpr
    rcases hc with e | e
    · rw [e]; exact List.mem_cons_self
    · exact List.mem_cons_of_mem _ e
  · intro _; exact hsess
  · intro recd' cur hr
    simp only [setPc] at hr
    rw [recInfo_nextRec] at hr
    simp only [Option.some.injEq, Prod.mk.injEq] at hr
    obtain ⟨e1, e2⟩ := hr
    subst e1; subst e2
    constructor
    · intro x hx hf
      unfold FS at hf
      simp only [setPc, removeFile, lookup_erase] at hf
      split at hf
      · simp at hf
      · rename_i e
        rcases List.mem_cons.mp hx with e' | e'
        · exact e e'
        · exact r2a x e' hf
    · intro p hp s hst
      left
      rcases r2b p hp s hst with h1 | h1
      · exact List.mem_cons_of_mem _ h1
      · simp only [Option.some.injEq] at h1; rw [h1]; exact List.mem_cons_self
  · intro l hl; simp only [setPc] at hl; rw [pendingDrain_nextRec] at hl; simp at hl

theorem nd_tickRecPendRemove {σ : State} (h : ND σ) (heq : σ.vol.pc = some .recPendRemove) :
    ND (tickRecPendRemove σ) := by
  unfold tickRecPendRemove
  apply nd_sub (σ' := setPc { σ with dur := { σ.dur with pfile := none } } none) h rfl
    (fun _ => Iff.rfl) (fun _ => rfl) (fun s hs => hs) (fun s hs => hs)
    (fun p hp => Or.inl ⟨p, hp, rfl, rfl⟩) (Or.inr rfl)
  · intro s _ _ hc; rw [heq] at hc; simp [cleans] at hc
  · intro s b hc
    rw [heq] at hc
    rcases hc with e | ⟨l, hl, _⟩
    · simp at e
    · simp [pendingDrain] at hl
  · intro s _; right; unfold QS; simp [setPc]
  · intro hr; simp [setPc, isRec] at hr
  · intro recd cur hr; simp [setPc, recInfo] at hr
  · intro l hl; simp [setPc, pendingDrain] at hl


theorem nd_tickRecLoad {σ : State} (h : ND σ) {recd order : List Nat}
    (heq : σ.vol.pc = some (.recLoad recd order)) : ND (tickRecLoad σ recd order) := by
  have hrec : isRec σ.vol.pc := by rw [heq]; trivial
  have hsess : σ.vol.sessions = [] := h.r1 hrec
  obtain ⟨r2a, r2b⟩ := h.r2 recd none (by rw [heq]; rfl)
  have noCl : ∀ s, ¬ cleans σ.vol.pc s := by intro s; rw [heq]; simp [cleans]
  have noEx : ∀ s b, ¬ exA σ.vol.pc s b := by
    intro s b hc; rw [heq] at hc
    rcases hc with e | ⟨l, hl, _⟩
    · simp at e
    · simp [pendingDrain] at hl
  unfold tickRecLoad
  split
  · rename_i hpf
    apply nd_sub (σ' := setPc σ none) h rfl (fun _ => Iff.rfl) (fun _ => rfl)
      (fun s hs => hs) (fun s hs => hs) (fun p hp => Or.inl ⟨p, hp, rfl, rfl⟩) (Or.inl rfl)
    · intro s _ _ hc; exact absurd hc (noCl s)
    · intro s b hc; exact absurd hc (noEx s b)
    · intro s _; right; unfold QS; simp [setPc, hpf]
    · intro hr; simp [setPc, isRec] at hr
    · intro recd' cur hr; simp [setPc, recInfo] at hr
    · intro l hl; simp [setPc, pendingDrain] at hl
  · rename_i ps hps
    have sp := loadPending_spec σ recd (recOfIds ps (normalize order (ps.map (·.id))))
    -- the loaded copy of a record of pending.json
    have loadedOf : ∀ p ∈ (loadPending σ recd (recOfIds ps (normalize order (ps.map (·.id))))).vol.pending,
        p ∈ σ.vol.pending ∨ ∃ q ∈ ps, p = { q with viaRecovery := true } ∧
          ¬ (q.req.kind = .stop ∧ q.req.sid ∈ recd) := by
      intro p hp
      rcases sp.pending p hp with h1 | ⟨q, hq, e, hn⟩
      · exact Or.inl h1
      · exact Or.inr ⟨q, mem_recOfIds hq, e, hn⟩
    have noPSold : ∀ s, s ∉ recd → ¬ PS σ s := by
      rintro s hs ⟨p, hp, hst⟩
      rcases r2b p hp s hst with h1 | h1
      · exact hs h1
      · simp at h1
    apply nd_gen (σ' := setPc (loadPending σ recd (recOfIds ps (normalize order (ps.map (·.id)))))
      (some .recPendRemove)) h
    · exact sp.tainted
    · intro s; show stopIn (loadPending σ recd _).log s ↔ _; rw [sp.log]
    · intro s; show stopCount (loadPending σ recd _).log s = _; rw [sp.log]
    · intro s _ hs
      left
      unfold AS at hs ⊢
      have : (setPc (loadPending σ recd (recOfIds ps (normalize order (ps.map (·.id))))) (some .recPendRemove)).vol.sessions
          = σ.vol.sessions := sp.sessions
      rw [this] at hs; exact hs
    · intro s _ hs
      left
      unfold FS at hs ⊢
      have : (setPc (loadPending σ recd (recOfIds ps (normalize order (ps.map (·.id))))) (some .recPendRemove)).dur
          = σ.dur := sp.dur
      rw [this] at hs; exact hs
    · intro p hp
      rcases loadedOf p hp with h1 | ⟨q, hq, e, hn⟩
      · exact Or.inl ⟨p, h1, rfl, rfl⟩
      · subst e
        by_cases hk : q.req.kind = .stop
        · right; right
          intro ht
          have hnr : q.req.sid ∉ recd := fun hm => hn ⟨hk, hm⟩
          have hQS : QS σ q.req.sid := ⟨ps, hps, q, hq, hk, rfl⟩
          refine ⟨noPSold _ hnr, ?_, ?_, ?_⟩
          · intro hl
            have := (h.per _ ht).g hl hQS
            rw [heq] at this
            exact hnr this
          · intro ha
            unfold AS at ha
            have : (setPc (loadPending σ recd (recOfIds ps (normalize order (ps.map (·.id)))))
                (some .recPendRemove)).vol.sessions = σ.vol.sessions := sp.sessions
            rw [this, hsess] at ha
            simp at ha
          · intro _; trivial
        · exact Or.inr (Or.inl hk)
    · intro s ht hps' p hp q hq h1 h2
      rcases loadedOf p hp with a1 | ⟨p0, hp0, e1, _⟩
      · exact absurd ⟨p, a1, h1⟩ hps'
      · rcases loadedOf q hq with b1 | ⟨q0, hq0, e2, _⟩
        · exact absurd ⟨q, b1, h2⟩ hps'
        · subst e1; subst e2
          exact (h.per s ht).c ps hps p0 hp0 q0 hq0 h1 h2
    · intro ps' hps'
      left
      have : (setPc (loadPending σ recd (recOfIds ps (normalize order (ps.map (·.id))))) (some .recPendRemove)).dur
          = σ.dur := sp.dur
      rw [this] at hps'; exact hps'
    · intro s _ _ hc; exact absurd hc (noCl s)
    · intro s b hc; exact absurd hc (noEx s b)
    · intro s _; left; trivial
    · intro _
      show (loadPending σ recd _).vol.sessions = []
      rw [sp.sessions]; exact hsess
    · intro recd' cur hr; simp [setPc, recInfo] at hr
    · intro l hl; simp [setPc, pendingDrain] at hl

theorem nd_tick {σ : State} (h : ND σ) (a : Bool) : ND (tick σ a) := by
  unfold tick
  split
  · exact h
  · rename_i heq; exact nd_tickStartSend h heq a
  · rename_i heq; exact nd_tickStartPersist h heq
  · rename_i heq; exact nd_tickStopPersist h heq
  · rename_i heq; exact nd_tickStopSend h heq a
  · rename_i heq; exact nd_tickStopDelete h heq
  · rename_i heq; exact nd_tickStopRemove h heq
  · rename_i heq; exact nd_tickIntSend h heq a
  · rename_i heq; exact nd_tickProcSend h heq a
  · rename_i heq; exact nd_tickProcRemove h heq
  · rename_i heq; exact nd_tickDrainSend h heq a
  · rename_i heq; exact nd_tickDrainRemove h heq
  · rename_i heq; exact nd_tickPersistPending h heq
  · rename_i heq; exact nd_tickRecSend h heq a
  · rename_i heq; exact nd_tickRecRemove h heq
  · rename_i heq; exact nd_tickRecLoad h heq
  · rename_i heq; exact nd_tickRecPendRemove h heq


/-! ## calls, crash, restart -/

/-- a process that is down has no call in progress -/
def IdleDown (σ : State) : Prop := σ.up = false → σ.vol.pc = none

theorem tick_up (σ : State) (a : Bool) : (tick σ a).up = σ.up ∨ (tick σ a).vol.pc = none := by
  unfold tick
  split
  · exact Or.inl rfl
  · left; unfold tickStartSend send; repeat' (first | rfl | split)
  · left; unfold tickStartPersist persistSession; repeat' (first | rfl | split)
  · left; unfold tickStopPersist persistSession; repeat' (first | rfl | split)
  · left; unfold tickStopSend send; repeat' (first | rfl | split)
  · exact Or.inl rfl
  · left; unfold tickStopRemove; repeat' (first | rfl | split)
  · left; unfold tickIntSend; repeat' (first | rfl | split)
  · left
    unfold tickProcSend
    split
    · rfl
    · dsimp only
      repeat' (first | rfl | split)
  · left; unfold tickProcRemove; repeat' (first | rfl | split)
  · left; unfold tickDrainSend; repeat' (first | rfl | split)
  · exact Or.inl rfl
  · exact Or.inr rfl
  · left; unfold tickRecSend send; repeat' (first | rfl | split)
  · exact Or.inl rfl
  · left
    unfold tickRecLoad
    split
    · rfl
    · exact (loadPending_spec _ _ _).up
  · exact Or.inl rfl

theorem idleDown_step {σ : State} (h : IdleDown σ) (op : Op) : IdleDown (step σ op) := by
  cases op with
  | tick a =>
    intro hup
    rcases tick_up σ a with e | e
    · have hpc := h (by rw [← e]; exact hup)
      simp only [step]
      rw [tick_idle a hpc]; exact hpc
    · exact e
  | crash => intro _; rfl
  | ctr s i o => exact h
  | restart order =>
    simp only [step]
    split
    · exact h
    · intro hup
      unfold callRestart at hup
      dsimp only at hup
      split at hup <;> simp [setPc, begin] at hup
  | start s ident =>
    simp only [step]
    split
    · exact h
    · rename_i hu
      intro hup
      split at hup
      · simp_all
      · unfold callStart at hup
        split at hup <;> simp_all [setPc, begin]
  | interim s =>
    simp only [step]
    split
    · exact h
    · rename_i hu
      intro hup
      split at hup
      · simp_all
      · unfold callInterim at hup
        split at hup
        · simp_all [begin]
        · split at hup <;> simp_all [setPc, begin]
  | stop s cause =>
    simp only [step]
    split
    · exact h
    · rename_i hu
      intro hup
      split at hup
      · simp_all
      · unfold callStop at hup
        split at hup <;> simp_all [setPc, begin]
  | deq =>
    simp only [step]
    split
    · exact h
    · rename_i hu
      intro hup
      split at hup
      · simp_all
      · unfold callDeq at hup
        split at hup <;> simp_all [setPc, begin]
  | retry order =>
    simp only [step]
    split
    · exact h
    · rename_i hu
      intro hup
      split at hup
      · simp_all
      · simp_all [callRetry, setPc, begin]
  | shutdown order =>
    simp only [step]
    split
    · exact h
    · rename_i hu
      intro hup
      split at hup
      · simp_all
      · simp_all [callShutdown, setPc, begin]

/-- a session id that was never registered is nowhere -/
theorem nowhere_of_unregistered {σ : State} (hr : Reg σ) {s : Nat} (hs : s ∉ σ.registered.map (·.1)) :
    ¬ stopIn σ.log s ∧ ¬ AS σ s ∧ ¬ FS σ s ∧ ¬ PS σ s ∧ ¬ QS σ s := by
  have key : ∀ i, (s, i) ∉ σ.registered := fun i hm => hs (List.mem_map.mpr ⟨(s, i), hm, rfl⟩)
  refine ⟨?_, ?_, ?_, ?_, ?_⟩
  · rintro ⟨r, hr', _, e⟩
    have := hr.log r hr'
    rw [e] at this; exact key _ this
  · intro ha
    unfold AS at ha
    cases hl : lookup σ.vol.sessions s with
    | none => rw [hl] at ha; simp at ha
    | some x => exact key _ (hr.sess s x hl)
  · intro ha
    unfold FS at ha
    cases hl : lookup σ.dur.files s with
    | none => rw [hl] at ha; simp at ha
    | some x => exact key _ (hr.files s x hl)
  · rintro ⟨p, hp, _, e⟩
    have := hr.pend p hp
    rw [e] at this; exact key _ this
  · rintro ⟨ps, hps, p, hp, _, e⟩
    have := hr.pfile ps hps p hp
    rw [e] at this; exact key _ this

theorem nds_of_nowhere {σ : State} {s : Nat}
    (h : ¬ stopIn σ.log s ∧ ¬ AS σ s ∧ ¬ FS σ s ∧ ¬ PS σ s ∧ ¬ QS σ s) : NDs σ s := by
  obtain ⟨h1, h2, h3, h4, h5⟩ := h
  refine ⟨?_, ?_, ?_, ?_, ?_, ?_, ?_, ?_, ?_, ?_⟩
  · rw [stopCount_zero_iff.mpr h1]; omega
  · intro p hp _ _ hst _; exact absurd ⟨p, hp, hst⟩ h4
  · intro ps hps p hp _ _ hst _; exact absurd ⟨ps, hps, p, hp, hst⟩ h5
  · exact fun hl => absurd hl h1
  · exact fun hl => absurd hl h1
  · exact fun hl => absurd hl h1
  · exact fun hl => absurd hl h1
  · exact fun hp => absurd hp h4
  · exact fun hp => absurd hp h4
  · exact fun ha => absurd ha h2

theorem nd_init (c : Cfg) : ND (init c) := by
  refine ⟨?_, by simp [init, isRec], by simp [init, recInfo], by simp [init, pendingDrain]⟩
  intro s _
  apply nds_of_nowhere
  refine ⟨?_, ?_, ?_, ?_, ?_⟩
  · rintro ⟨r, hr, _⟩; simp [init] at hr
  · simp [AS, init]
  · simp [FS, init]
  · rintro ⟨p, hp, _⟩; simp [init] at hp
  · rintro ⟨ps, hps, _⟩; simp [init] at hps

/-- steps that change only bookkeeping fields -/
theorem nd_same {σ σ' : State} (h : ND σ) (ht : σ'.tainted = σ.tainted) (hl : σ'.log = σ.log)
    (hv : σ'.vol = σ.vol) (hd : σ'.dur = σ.dur) : ND σ' := by
  apply nd_sub h ht (fun s => by rw [hl]) (fun s => by rw [hl])
    (fun s hs => by unfold AS at hs ⊢; rw [hv] at hs; exact hs)
    (fun s hs => by unfold FS at hs ⊢; rw [hd] at hs; exact hs)
    (fun p hp => by rw [hv] at hp; exact Or.inl ⟨p, hp, rfl, rfl⟩)
    (Or.inl (by rw [hd]))
  · intro s _ _ hc; rw [hv]; exact Or.inl hc
  · intro s b hc; rw [hv]; exact Or.inl hc
  · intro s hc; rw [hv]; exact Or.inl hc
  · rw [hv]; exact h.r1
  · intro recd cur hr
    rw [hv] at hr
    obtain ⟨a1, a2⟩ := h.r2 recd cur hr
    refine ⟨fun x hx hf => a1 x hx (by unfold FS at hf ⊢; rw [hd] at hf; exact hf), ?_⟩
    rw [hv]; exact a2
  · rw [hv]; exact h.dr


theorem pc_none_of_not_isSome {σ : State} (h : ¬ σ.vol.pc.isSome = true) : σ.vol.pc = none := by
  cases e : σ.vol.pc with
  | none => rfl
  | some f => rw [e] at h; simp at h

theorem nd_step {σ : State} (h : ND σ) (hr : Reg σ) (hi : IdleDown σ) (op : Op)
    (hfresh : ((step σ op).registered.map (·.1)).Nodup) : ND (step σ op) := by
  cases op with
  | tick a => exact nd_tick h a
  | ctr s i o => exact nd_same h rfl rfl rfl rfl
  | crash =>
    refine ⟨?_, by simp [step, crash, isRec], by simp [step, crash, recInfo], by simp [step, crash, pendingDrain]⟩
    intro s hs
    have hs' : s ∉ σ.registered.map (·.1) := by
      intro hm; apply hs
      simp only [step, crash, List.mem_append]
      exact Or.inl hm
    obtain ⟨h1, _, h3, _, h5⟩ := nowhere_of_unregistered hr hs'
    apply nds_of_nowhere
    refine ⟨h1, ?_, h3, ?_, h5⟩
    · simp [AS, step, crash]
    · rintro ⟨p, hp, _⟩; simp [step, crash] at hp
  | restart order =>
    simp only [step]
    split
    · exact nd_same h rfl rfl rfl rfl
    · rename_i hup
      have hpc : σ.vol.pc = none := hi (by simpa using hup)
      have hne : noExcuse σ.vol.pc := by rw [hpc]; exact noExcuse_none
      unfold callRestart
      dsimp only
      split
      · apply nd_sub h
        · rfl
        · exact fun _ => Iff.rfl
        · exact fun _ => rfl
        · intro s hs; simp [AS, setPc, begin] at hs
        · exact fun s hs => hs
        · intro p hp; simp [setPc, begin] at hp
        · exact Or.inl rfl
        · intro s _ _ hc; exact absurd hc (hne.1 s)
        · intro s b hc; exact absurd hc (hne.2.1 s b)
        · intro s hc; exact absurd hc (hne.2.2 s)
        · intro _; rfl
        · intro recd cur hr'
          simp only [setPc] at hr'
          rw [recInfo_nextRec] at hr'
          simp only [Option.some.injEq, Prod.mk.injEq] at hr'
          obtain ⟨e1, e2⟩ := hr'
          subst e1; subst e2
          refine ⟨by simp, ?_⟩
          intro p hp; simp [setPc, begin] at hp
        · intro l hl; simp only [setPc] at hl; rw [pendingDrain_nextRec] at hl; simp at hl
      · apply nd_sub h
        · rfl
        · exact fun _ => Iff.rfl
        · exact fun _ => rfl
        · intro s hs; simp [AS, begin] at hs
        · exact fun s hs => hs
        · intro p hp; simp [begin] at hp
        · exact Or.inl rfl
        · intro s _ _ hc; exact absurd hc (hne.1 s)
        · intro s b hc; exact absurd hc (hne.2.1 s b)
        · intro s hc; exact absurd hc (hne.2.2 s)
        · intro hr'; simp [begin, isRec] at hr'
        · intro recd cur hr'; simp [begin, recInfo] at hr'
        · intro l hl; simp [begin, pendingDrain] at hl
  | start s ident =>
    simp only [step] at hfresh ⊢
    split
    · exact nd_same h rfl rfl rfl rfl
    · split
      · exact nd_same h rfl rfl rfl rfl
      · rename_i hup hbusy
        have hpc : σ.vol.pc = none := pc_none_of_not_isSome hbusy
        have hne : noExcuse σ.vol.pc := by rw [hpc]; exact noExcuse_none
        rw [if_neg hup, if_neg hbusy] at hfresh
        unfold callStart at hfresh ⊢
        split
        · exact nd_same h rfl rfl rfl rfl
        · rename_i hnew
          rw [if_neg hnew] at hfresh
          have hs' : s ∉ σ.registered.map (·.1) := by
            simp only [setPc, begin, List.map_cons, List.nodup_cons] at hfresh
            exact hfresh.1
          obtain ⟨n1, _, _, n4, n5⟩ := nowhere_of_unregistered hr hs'
          apply nd_plain h hne
          · exact quiet_startSend s
          · rfl
          · exact fun _ => Iff.rfl
          · exact fun _ => rfl
          · intro k _ hk
            unfold AS at hk
            simp only [setPc, begin, lookup_insert] at hk
            split at hk
            · rename_i e; subst e
              exact Or.inr ⟨n1, n4, n5⟩
            · exact Or.inl hk
          · exact fun k _ hk => Or.inl hk
          · intro p hp; exact Or.inl ⟨p, hp, rfl, rfl⟩
          · intro k _ hps p hp q _ h1 _; exact absurd ⟨p, hp, h1⟩ hps
          · rfl
  | interim s =>
    simp only [step]
    split
    · exact nd_same h rfl rfl rfl rfl
    · split
      · exact nd_same h rfl rfl rfl rfl
      · rename_i hup hbusy
        have hpc : σ.vol.pc = none := pc_none_of_not_isSome hbusy
        have hne : noExcuse σ.vol.pc := by rw [hpc]; exact noExcuse_none
        unfold callInterim
        split
        · exact nd_same h rfl rfl rfl rfl
        · split
          · exact nd_same h rfl rfl rfl rfl
          · exact nd_sub_plain (σ' := setPc (begin σ .ok) (some (.intSend s))) h hne (quiet_intSend s) rfl
              (fun _ => Iff.rfl) (fun _ => rfl) (fun k hk => hk) (fun k hk => hk)
              (fun p hp => Or.inl ⟨p, hp, rfl, rfl⟩) (Or.inl rfl)
  | stop s cause =>
    simp only [step]
    split
    · exact nd_same h rfl rfl rfl rfl
    · split
      · exact nd_same h rfl rfl rfl rfl
      · rename_i hup hbusy
        have hpc : σ.vol.pc = none := pc_none_of_not_isSome hbusy
        have hne : noExcuse σ.vol.pc := by rw [hpc]; exact noExcuse_none
        unfold callStop
        split
        · exact nd_same h rfl rfl rfl rfl
        · rename_i x hx
          apply nd_sub_plain h hne
          · exact quiet_stopPersist s
          · rfl
          · exact fun _ => Iff.rfl
          · exact fun _ => rfl
          · intro k hk
            unfold AS at hk ⊢
            simp only [setPc, begin, lookup_insert] at hk
            split at hk
            · rename_i e; subst e; rw [hx]; rfl
            · exact hk
          · exact fun k hk => hk
          · intro p hp; exact Or.inl ⟨p, hp, rfl, rfl⟩
          · exact Or.inl rfl
  | deq =>
    simp only [step]
    split
    · exact nd_same h rfl rfl rfl rfl
    · split
      · exact nd_same h rfl rfl rfl rfl
      · rename_i hup hbusy
        have hpc : σ.vol.pc = none := pc_none_of_not_isSome hbusy
        have hne : noExcuse σ.vol.pc := by rw [hpc]; exact noExcuse_none
        unfold callDeq
        split
        · exact nd_same h rfl rfl rfl rfl
        · apply nd_sub_plain h hne
          · exact quiet_nextProc _ _
          · rfl
          · exact fun _ => Iff.rfl
          · exact fun _ => rfl
          · exact fun k hk => hk
          · exact fun k hk => hk
          · intro p hp; exact Or.inl ⟨p, hp, rfl, rfl⟩
          · exact Or.inl rfl
  | retry order =>
    simp only [step]
    split
    · exact nd_same h rfl rfl rfl rfl
    · split
      · exact nd_same h rfl rfl rfl rfl
      · rename_i hup hbusy
        have hpc : σ.vol.pc = none := pc_none_of_not_isSome hbusy
        have hne : noExcuse σ.vol.pc := by rw [hpc]; exact noExcuse_none
        unfold callRetry
        apply nd_sub_plain h hne
        · exact quiet_nextProc _ _
        · rfl
        · exact fun _ => Iff.rfl
        · exact fun _ => rfl
        · exact fun k hk => hk
        · exact fun k hk => hk
        · intro p hp; exact Or.inl ⟨p, hp, rfl, rfl⟩
        · exact Or.inl rfl
  | shutdown order =>
    simp only [step]
    split
    · exact nd_same h rfl rfl rfl rfl
    · split
      · exact nd_same h rfl rfl rfl rfl
      · rename_i hup hbusy
        have hpc : σ.vol.pc = none := pc_none_of_not_isSome hbusy
        have hne : noExcuse σ.vol.pc := by rw [hpc]; exact noExcuse_none
        unfold callShutdown
        apply nd_sub h
        · rfl
        · exact fun _ => Iff.rfl
        · exact fun _ => rfl
        · exact fun k hk => hk
        · exact fun k hk => hk
        · intro p hp; exact Or.inl ⟨p, hp, rfl, rfl⟩
        · exact Or.inl rfl
        · intro k _ _ hc; exact absurd hc (hne.1 k)
        · intro k b hc; exact absurd hc (hne.2.1 k b)
        · intro k hc; exact absurd hc (hne.2.2 k)
        · intro hr'
          simp only [setPc, begin] at hr'
          cases hn : normalize order (keys σ.vol.sessions) <;> rw [hn] at hr' <;> simp [nextDrain, isRec] at hr'
        · intro recd cur hr'
          simp only [setPc, begin] at hr'
          rw [recInfo_nextDrain] at hr'; simp at hr'
        · intro l hl
          simp only [setPc, begin] at hl
          rw [pendingDrain_nextDrain] at hl
          simp only [Option.some.injEq] at hl
          subst hl
          exact nodup_normalize _ _


theorem registered_step_eq (σ : State) (op : Op) :
    (step σ op).registered = σ.registered ∨ ∃ x, (step σ op).registered = x :: σ.registered := by
  cases op with
  | tick a => left; simp only [step]; exact tick_registered σ a
  | crash => exact Or.inl rfl
  | ctr s i o => exact Or.inl rfl
  | restart order =>
    left
    simp only [step]
    split
    · rfl
    · unfold callRestart; dsimp only; split <;> rfl
  | start s ident =>
    simp only [step]
    split
    · exact Or.inl rfl
    · split
      · exact Or.inl rfl
      · unfold callStart
        split
        · exact Or.inl rfl
        · exact Or.inr ⟨(s, ident), rfl⟩
  | interim s =>
    left
    simp only [step]
    split
    · rfl
    · split
      · rfl
      · unfold callInterim
        split
        · rfl
        · split <;> rfl
  | stop s cause =>
    left
    simp only [step]
    split
    · rfl
    · split
      · rfl
      · unfold callStop
        split <;> rfl
  | deq =>
    left
    simp only [step]
    split
    · rfl
    · split
      · rfl
      · unfold callDeq
        split <;> rfl
  | retry order =>
    left
    simp only [step]
    split
    · rfl
    · split <;> rfl
  | shutdown order =>
    left
    simp only [step]
    split
    · rfl
    · split <;> rfl

theorem fresh_of_step {σ : State} {op : Op} (h : ((step σ op).registered.map (·.1)).Nodup) :
    (σ.registered.map (·.1)).Nodup := by
  rcases registered_step_eq σ op with e | ⟨x, e⟩
  · rw [e] at h; exact h
  · rw [e] at h
    simp only [List.map_cons, List.nodup_cons] at h
    exact h.2

theorem fresh_of_run {σ : State} {ops : List Op} (h : ((run σ ops).registered.map (·.1)).Nodup) :
    (σ.registered.map (·.1)).Nodup := by
  induction ops generalizing σ with
  | nil => exact h
  | cons op ops ih => exact fresh_of_step (ih h)

theorem nd_run {σ : State} (h : ND σ) (hr : Reg σ) (hi : IdleDown σ) (ops : List Op)
    (hfresh : ((run σ ops).registered.map (·.1)).Nodup) : ND (run σ ops) := by
  induction ops generalizing σ with
  | nil => exact h
  | cons op ops ih =>
    exact ih (nd_step h hr hi op (fresh_of_run hfresh)) (reg_step hr op) (idleDown_step hi op) hfresh

/-- `tainted` grows only at a crash, by the sessions registered so far -/
theorem tainted_step (σ : State) (op : Op) (s : Nat) (h : s ∈ (step σ op).tainted) :
    s ∈ σ.tainted ∨ (op = .crash ∧ s ∈ σ.registered.map (·.1)) := by
  by_cases hc : op = .crash
  · subst hc
    simp only [step, crash, List.mem_append] at h
    rcases h with h | h
    · exact Or.inr ⟨rfl, h⟩
    · exact Or.inl h
  · left
    by_cases ht : ∃ a, op = .tick a
    · obtain ⟨a, e⟩ := ht
      subst e
      simp only [step] at h
      unfold tick at h
      split at h
      · exact h
      · unfold tickStartSend send at h; revert h; repeat' (first | exact id | split)
      · unfold tickStartPersist persistSession at h; revert h; repeat' (first | exact id | split)
      · unfold tickStopPersist persistSession at h; revert h; repeat' (first | exact id | split)
      · unfold tickStopSend send at h; revert h; repeat' (first | exact id | split)
      · exact h
      · unfold tickStopRemove at h; revert h; repeat' (first | exact id | split)
      · unfold tickIntSend at h; revert h; repeat' (first | exact id | split)
      · unfold tickProcSend at h
        split at h
        · exact h
        · dsimp only at h
          revert h; repeat' (first | exact id | split)
      · unfold tickProcRemove at h; revert h; repeat' (first | exact id | split)
      · unfold tickDrainSend at h; revert h; repeat' (first | exact id | split)
      · exact h
      · exact h
      · unfold tickRecSend send at h; revert h; repeat' (first | exact id | split)
      · exact h
      · unfold tickRecLoad at h
        split at h
        · exact h
        · simp only [setPc] at h
          rw [(loadPending_spec _ _ _).tainted] at h; exact h
      · exact h
    · have e : (step σ op).tainted = σ.tainted := by
        cases op with
        | crash => exact absurd rfl hc
        | tick a => exact absurd ⟨a, rfl⟩ ht
        | ctr s i o => rfl
        | restart order =>
          simp only [step]
          split
          · rfl
          · unfold callRestart; dsimp only; split <;> rfl
        | start s ident =>
          simp only [step]
          split
          · rfl
          · split
            · rfl
            · unfold callStart
              split <;> rfl
        | interim s =>
          simp only [step]
          split
          · rfl
          · split
            · rfl
            · unfold callInterim
              split
              · rfl
              · split <;> rfl
        | stop s cause =>
          simp only [step]
          split
          · rfl
          · split
            · rfl
            · unfold callStop
              split <;> rfl
        | deq =>
          simp only [step]
          split
          · rfl
          · split
            · rfl
            · unfold callDeq
              split <;> rfl
        | retry order =>
          simp only [step]
          split
          · rfl
          · split <;> rfl
        | shutdown order =>
          simp only [step]
          split
          · rfl
          · split <;> rfl
      rw [e] at h; exact h


theorem tainted_empty_run (σ : State) (ops : List Op) (hnc : Op.crash ∉ ops) (h0 : σ.tainted = []) :
    (run σ ops).tainted = [] := by
  induction ops generalizing σ with
  | nil => exact h0
  | cons op ops ih =>
    apply ih _ (fun hm => hnc (List.mem_cons_of_mem _ hm))
    apply List.eq_nil_iff_forall_not_mem.mpr
    intro x hx
    rcases tainted_step σ op x hx with h1 | ⟨h1, _⟩
    · rw [h0] at h1; simp at h1
    · exact hnc (by rw [h1]; exact List.mem_cons_self)

end Bng.Acct
