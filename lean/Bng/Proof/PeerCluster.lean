import Bng.Model.PeerCluster
import Bng.Proof.FreeList
/-
  Helper lemmas for the PeerPool cluster model: every node's local pool stays a reachable free list;
  routing without health changes always reaches the top of the ranking.
-/
namespace Bng.PeerCluster
open Bng AMap

theorem lookup_mkNodes {c : FreeList.Cfg} {n j : Nat} {st : FreeList.State}
    (h : AMap.lookup (mkNodes c n) j = some st) : st = FreeList.init c := by
  induction n with
  | zero => simp [mkNodes] at h
  | succ n ih =>
    simp only [mkNodes, lookup_cons] at h
    split at h
    · simp only [Option.some.injEq] at h; exact h.symm
    · exact ih h

/-- every node's local pool satisfies the free-list invariant and keeps the common configuration -/
def NodesInv (c : FreeList.Cfg) (s : State) : Prop :=
  ∀ j st, AMap.lookup s.nodes j = some st → FreeList.Inv st ∧ st.cfg = c

theorem nodesInv_init (c : FreeList.Cfg) (hu : c.univ.Nodup) (hl : c.lookupFirst = true) (n : Nat) :
    NodesInv c (init c n) := by
  intro j st h
  have := lookup_mkNodes h
  subst this
  exact ⟨FreeList.inv_init c hu hl, rfl⟩

theorem nodesInv_onNode {c : FreeList.Cfg} {s : State} (hI : NodesInv c s) (j : Nat)
    (f : FreeList.State → FreeList.State × FreeList.Obs)
    (hf : ∀ st, FreeList.Inv st → FreeList.Inv (f st).1 ∧ (f st).1.cfg = st.cfg) :
    NodesInv c (onNode s j f).1 := by
  unfold onNode
  split
  · rename_i st hst
    intro j' st' h
    simp only [lookup_insert] at h
    by_cases e : j' = j
    · simp only [e, if_true, Option.some.injEq] at h
      subst h
      have := hI j st hst
      have h2 := hf st this.1
      exact ⟨h2.1, h2.2.trans this.2⟩
    · simp only [e, if_false] at h
      exact hI j' st' h
  · exact hI

theorem alloc_cfg (st : FreeList.State) (k : Nat) : (FreeList.alloc st k).1.cfg = st.cfg :=
  FreeList.step_cfg st (.alloc k)
theorem release_cfg (st : FreeList.State) (k : Nat) : (FreeList.release st k).1.cfg = st.cfg :=
  FreeList.step_cfg st (.release k)

theorem nodesInv_step {c : FreeList.Cfg} {s : State} (hI : NodesInv c s) (op : Op) :
    NodesInv c (step s op).1 := by
  cases op with
  | alloc i k r =>
    exact nodesInv_onNode hI _ _ (fun st h => ⟨FreeList.inv_alloc h k, alloc_cfg st k⟩)
  | release i k r =>
    exact nodesInv_onNode hI _ _ (fun st h => ⟨FreeList.inv_release h k, release_cfg st k⟩)
  | get i k o =>
    simp only [step]
    split
    · split <;> exact hI
    · exact hI
  | health i j h => exact hI
  | stats i =>
    simp only [step]
    split <;> exact hI

theorem nodesInv_run {c : FreeList.Cfg} {s : State} (hI : NodesInv c s) (ops : List Op) :
    NodesInv c (run s ops) := by
  induction ops generalizing s with
  | nil => exact hI
  | cons op ops ih =>
    simp only [run, List.foldl_cons]
    exact ih (nodesInv_step hI op)

/-! ### which holdings an operation of the local pool can create -/

theorem alloc_held_of (st : FreeList.State) (k k' a : Nat)
    (h : AMap.lookup (FreeList.alloc st k).1.held k' = some a) :
    k' = k ∨ AMap.lookup st.held k' = some a := by
  unfold FreeList.alloc at h
  split at h
  · exact Or.inr h
  · split at h
    · exact Or.inr h
    · simp only [lookup_insert] at h
      by_cases e : k' = k
      · exact Or.inl e
      · simp only [e, if_false] at h; exact Or.inr h

theorem release_held_of (st : FreeList.State) (k k' a : Nat)
    (h : AMap.lookup (FreeList.release st k).1.held k' = some a) :
    AMap.lookup st.held k' = some a := by
  unfold FreeList.release at h
  split at h
  · exact h
  · simp only [lookup_erase] at h
    by_cases e : k' = k
    · simp [e] at h
    · simp only [e, if_false] at h; exact h

/-- with nobody considered unhealthy a request goes to the top of the ranking -/
theorem healthyOwner_calm (s : State) (hu : s.unhealthy = []) (i j : Nat) (rest : List Nat) :
    healthyOwner s i (j :: rest) = j := by
  unfold healthyOwner
  simp [hu, List.find?]

end Bng.PeerCluster
