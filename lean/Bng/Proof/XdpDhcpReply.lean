import Bng.Proof.XdpDhcp
import Bng.Proof.Checksum
/-
  What the transmitted frame `replyP` contains: window-by-window facts, then `replyDefect … = none`
  (the executable well-formedness predicate the monitor applies to the native program's output).
-/
namespace Bng.XdpDhcp
open Bng Bng.C Bng.XdpDhcpSpec

/-- side conditions of the window lemmas: lengths of spliced frames and stored byte strings normalise to the
    base frame's length and to numerals, the rest is linear arithmetic -/
macro "lenok" : tactic =>
  `(tactic| first
    | omega
    | (simp only [splice_length', leBytes_length, rdBytes_length, List.length_replicate, List.length_cons,
         List.length_nil, bytesAt_length, List.length_append, opt4_length, List.length_take] <;> omega))

/-- one step: look through the final truncation, read back a store, or skip a disjoint store -/
macro "win1" : tactic =>
  `(tactic| first
    | (with_reducible (refine win_take ?_ ?_); (focus lenok))
    | (with_reducible (refine win_same ?_ ?_ ?_); (focus lenok); (focus lenok); (focus (with_reducible rfl)))
    | (with_reducible (refine win_disj ?_ ?_ ?_); (focus lenok); (focus lenok)))

/-- rewrite a window through stores and the final truncation -/
macro "win" : tactic => `(tactic| ((repeat win1); try (with_reducible rfl)))

theorem l2Dest_length (f : Frame) (p : Pkt) (h : p.dhcpOff + 240 ≤ f.length) : (l2Dest f p).length = 6 := by
  unfold l2Dest; simp only []; split <;> simp <;> omega

/-! ### layer 1: `rewriteHeadersP` -/

section layer1
variable {f : Frame} {p : Pkt} (wf : p.WF f) (cfg : Bytes) (sip gi : UInt32)
include wf

omit wf in
theorem rh_length : (rewriteHeadersP f p cfg sip gi).length = f.length := by
  unfold rewriteHeadersP; simp

/-- anything from the BOOTP message on is untouched by the header rewrite, and so are the bytes between the MAC
    addresses and the IP TTL -/
theorem rh_unchanged {o n : Nat} (h : (12 ≤ o ∧ o + n ≤ p.ipOff + 8) ∨ (o = p.ipOff + 9 ∧ n = 1) ∨
    (o = p.udpOff + 4 ∧ n = 2) ∨ p.dhcpOff ≤ o) (_hn : o + n ≤ f.length) :
    bytesAt (rewriteHeadersP f p cfg sip gi) o n = bytesAt f o n := by
  obtain ⟨hv, hip, hudp, hdhcp, hroom⟩ := wf
  have hd : (if (gi != 0) = true then bytesAt f 6 6 else l2Dest f p).length = 6 := by
    split
    · simp; omega
    · exact l2Dest_length f p hroom
  unfold rewriteHeadersP
  simp only []
  generalize (if (gi != 0) = true then bytesAt f 6 6 else l2Dest f p) = dst at hd
  win

theorem rh_ck0 : bytesAt (rewriteHeadersP f p cfg sip gi) (p.ipOff + 10) 2 = leBytes 2 (0 : UInt16).toNat := by
  obtain ⟨hv, hip, hudp, hdhcp, hroom⟩ := wf
  have hd : (if (gi != 0) = true then bytesAt f 6 6 else l2Dest f p).length = 6 := by
    split
    · simp; omega
    · exact l2Dest_length f p hroom
  unfold rewriteHeadersP
  simp only []
  generalize (if (gi != 0) = true then bytesAt f 6 6 else l2Dest f p) = dst at hd
  win

theorem rh_sport : bytesAt (rewriteHeadersP f p cfg sip gi) p.udpOff 2 = leBytes 2 (htons 67).toNat := by
  obtain ⟨hv, hip, hudp, hdhcp, hroom⟩ := wf
  have hd : (if (gi != 0) = true then bytesAt f 6 6 else l2Dest f p).length = 6 := by
    split
    · simp; omega
    · exact l2Dest_length f p hroom
  unfold rewriteHeadersP
  simp only []
  generalize (if (gi != 0) = true then bytesAt f 6 6 else l2Dest f p) = dst at hd
  win

theorem rh_dport : bytesAt (rewriteHeadersP f p cfg sip gi) (p.udpOff + 2) 2
    = leBytes 2 (htons (if gi != 0 then 67 else 68)).toNat := by
  obtain ⟨hv, hip, hudp, hdhcp, hroom⟩ := wf
  have hd : (if (gi != 0) = true then bytesAt f 6 6 else l2Dest f p).length = 6 := by
    split
    · simp; omega
    · exact l2Dest_length f p hroom
  unfold rewriteHeadersP
  simp only []
  generalize (if (gi != 0) = true then bytesAt f 6 6 else l2Dest f p) = dst at hd
  win

theorem rh_dst : bytesAt (rewriteHeadersP f p cfg sip gi) 0 6 = (if gi != 0 then bytesAt f 6 6 else l2Dest f p) := by
  obtain ⟨hv, hip, hudp, hdhcp, hroom⟩ := wf
  have hd : (if (gi != 0) = true then bytesAt f 6 6 else l2Dest f p).length = 6 := by
    split
    · simp; omega
    · exact l2Dest_length f p hroom
  unfold rewriteHeadersP
  simp only []
  generalize (if (gi != 0) = true then bytesAt f 6 6 else l2Dest f p) = dst at hd
  win

theorem rh_src : bytesAt (rewriteHeadersP f p cfg sip gi) 6 6 = rdBytes cfg 0 6 := by
  obtain ⟨hv, hip, hudp, hdhcp, hroom⟩ := wf
  have hd : (if (gi != 0) = true then bytesAt f 6 6 else l2Dest f p).length = 6 := by
    split
    · simp; omega
    · exact l2Dest_length f p hroom
  unfold rewriteHeadersP
  simp only []
  generalize (if (gi != 0) = true then bytesAt f 6 6 else l2Dest f p) = dst at hd
  win

theorem rh_saddr : bytesAt (rewriteHeadersP f p cfg sip gi) (p.ipOff + 12) 4 = leBytes 4 sip.toNat := by
  obtain ⟨hv, hip, hudp, hdhcp, hroom⟩ := wf
  have hd : (if (gi != 0) = true then bytesAt f 6 6 else l2Dest f p).length = 6 := by
    split
    · simp; omega
    · exact l2Dest_length f p hroom
  unfold rewriteHeadersP
  simp only []
  generalize (if (gi != 0) = true then bytesAt f 6 6 else l2Dest f p) = dst at hd
  win

theorem rh_daddr : bytesAt (rewriteHeadersP f p cfg sip gi) (p.ipOff + 16) 4
    = leBytes 4 (if gi != 0 then gi else IP_BCAST).toNat := by
  obtain ⟨hv, hip, hudp, hdhcp, hroom⟩ := wf
  have hd : (if (gi != 0) = true then bytesAt f 6 6 else l2Dest f p).length = 6 := by
    split
    · simp; omega
    · exact l2Dest_length f p hroom
  unfold rewriteHeadersP
  simp only []
  generalize (if (gi != 0) = true then bytesAt f 6 6 else l2Dest f p) = dst at hd
  win

theorem rh_ttl : bytesAt (rewriteHeadersP f p cfg sip gi) (p.ipOff + 8) 1 = [64] := by
  obtain ⟨hv, hip, hudp, hdhcp, hroom⟩ := wf
  have hd : (if (gi != 0) = true then bytesAt f 6 6 else l2Dest f p).length = 6 := by
    split
    · simp; omega
    · exact l2Dest_length f p hroom
  unfold rewriteHeadersP
  simp only []
  generalize (if (gi != 0) = true then bytesAt f 6 6 else l2Dest f p) = dst at hd
  win

theorem rh_udpck : bytesAt (rewriteHeadersP f p cfg sip gi) (p.udpOff + 6) 2 = leBytes 2 (0 : UInt16).toNat := by
  obtain ⟨hv, hip, hudp, hdhcp, hroom⟩ := wf
  have hd : (if (gi != 0) = true then bytesAt f 6 6 else l2Dest f p).length = 6 := by
    split
    · simp; omega
    · exact l2Dest_length f p hroom
  unfold rewriteHeadersP
  simp only []
  generalize (if (gi != 0) = true then bytesAt f 6 6 else l2Dest f p) = dst at hd
  win

end layer1

/-! ### layer 2: `rewriteBootpP` -/

section layer2
variable {f : Frame} {p : Pkt} (hroom : p.dhcpOff + 240 ≤ f.length) (yi sip : UInt32)

theorem rb_length : (rewriteBootpP f p yi sip).length = f.length := by
  unfold rewriteBootpP; simp

include hroom

/-- the BOOTP rewrite touches op, hops, yiaddr, siaddr, sname and file only -/
theorem rb_unchanged {o n : Nat} (h : o + n ≤ p.dhcpOff ∨ (p.dhcpOff + 1 ≤ o ∧ o + n ≤ p.dhcpOff + 3) ∨
    (p.dhcpOff + 4 ≤ o ∧ o + n ≤ p.dhcpOff + 16) ∨ (p.dhcpOff + 24 ≤ o ∧ o + n ≤ p.dhcpOff + 44) ∨
    p.dhcpOff + 236 ≤ o) :
    bytesAt (rewriteBootpP f p yi sip) o n = bytesAt f o n := by
  unfold rewriteBootpP
  simp only []
  win

theorem rb_op : bytesAt (rewriteBootpP f p yi sip) p.dhcpOff 1 = [2] := by
  unfold rewriteBootpP
  simp only []
  win

theorem rb_yiaddr : bytesAt (rewriteBootpP f p yi sip) (p.dhcpOff + 16) 4 = leBytes 4 yi.toNat := by
  unfold rewriteBootpP
  simp only []
  win

theorem rb_hops : bytesAt (rewriteBootpP f p yi sip) (p.dhcpOff + 3) 1 = [0] := by
  unfold rewriteBootpP
  simp only []
  win

theorem rb_siaddr : bytesAt (rewriteBootpP f p yi sip) (p.dhcpOff + 20) 4 = leBytes 4 sip.toNat := by
  unfold rewriteBootpP
  simp only []
  win

theorem rb_sname : bytesAt (rewriteBootpP f p yi sip) (p.dhcpOff + 44) 64 = List.replicate 64 0 := by
  unfold rewriteBootpP
  simp only []
  win

theorem rb_file : bytesAt (rewriteBootpP f p yi sip) (p.dhcpOff + 108) 128 = List.replicate 128 0 := by
  unfold rewriteBootpP
  simp only []
  win

end layer2

/-! ### layer 4: `finishP` (lengths, checksum, truncation) -/

section layer4
variable {F : Frame} {p : Pkt} {n : Nat} (wf : p.WF F) (hn : n ≤ 50) (hroom : p.dhcpOff + 240 + 64 ≤ F.length)
include wf hn hroom

theorem fin_length : (finishP F p n).length = 14 + p.vlanOff + 268 + n := by
  obtain ⟨hv, hip, hudp, hdhcp, _⟩ := wf
  unfold finishP
  simp only [List.length_take, splice_length']
  omega

/-- everything in front of the cut except tot_len, udp.len and the IP checksum is what it was before `finish` -/
theorem fin_unchanged {o k : Nat} (hk : o + k ≤ 14 + p.vlanOff + 268 + n)
    (hd : (o + k ≤ p.ipOff + 2 ∨ p.ipOff + 4 ≤ o) ∧ (o + k ≤ p.ipOff + 10 ∨ p.ipOff + 12 ≤ o) ∧
          (o + k ≤ p.udpOff + 4 ∨ p.udpOff + 6 ≤ o)) :
    bytesAt (finishP F p n) o k = bytesAt F o k := by
  obtain ⟨hv, hip, hudp, hdhcp, _⟩ := wf
  unfold finishP
  simp only []
  win

theorem fin_iplen : bytesAt (finishP F p n) (p.ipOff + 2) 2 = leBytes 2 (htons (ipLenOf n)).toNat := by
  obtain ⟨hv, hip, hudp, hdhcp, _⟩ := wf
  unfold finishP
  simp only []
  win

theorem fin_udplen : bytesAt (finishP F p n) (p.udpOff + 4) 2 = leBytes 2 (htons (udpLenOf n)).toNat := by
  obtain ⟨hv, hip, hudp, hdhcp, _⟩ := wf
  unfold finishP
  simp only []
  win

/-- the IP header of the transmitted frame passes the receiver's checksum test, provided the checksum field was
    zero when `ip_checksum` ran -/
theorem fin_hdr_ok (hz : bytesAt F (p.ipOff + 10) 2 = [0, 0]) :
    headerSumOk (bytesAt (finishP F p n) p.ipOff 20) = true := by
  obtain ⟨hv, hip, hudp, hdhcp, _⟩ := wf
  unfold finishP
  simp only []
  rw [bytesAt_take (by omega)]
  rw [bytesAt_splice_inside (by simp only [splice_length']; omega) (by omega) (by simp only [leBytes_length]; omega)]
  have e : p.ipOff + 10 - p.ipOff = 10 := by omega
  rw [e]
  have inner : bytesAt (splice (splice F (p.ipOff + 2) (leBytes 2 (htons (ipLenOf n)).toNat)) (p.udpOff + 4)
      (leBytes 2 (htons (udpLenOf n)).toNat)) p.ipOff 20 =
      bytesAt (splice F (p.ipOff + 2) (leBytes 2 (htons (ipLenOf n)).toNat)) p.ipOff 20 := by
    win
  rw [inner]
  apply Checksum.csum_correct
  · simp only [bytesAt_length, splice_length']; omega
  · rw [bytesAt_bytesAt (by omega)]
    have : bytesAt (splice F (p.ipOff + 2) (leBytes 2 (htons (ipLenOf n)).toNat)) (p.ipOff + 10) 2
        = bytesAt F (p.ipOff + 10) 2 := by
      win
    rw [this, hz]

end layer4

/-! ### the transmitted frame -/

section reply
variable {f : Frame} {p : Pkt} (wf : p.WF f) (hroom : p.dhcpOff + 240 + 64 ≤ f.length)
  (t : UInt8) (a pool cfg : Bytes)

/-- the options the reply carries -/
def replyOpts (t : UInt8) (pool cfg : Bytes) : List UInt8 := optsBytes (replyTypeOf t) pool (serverIpOf cfg pool)

/-- the frames between the phases -/
def frame1 (f : Frame) (p : Pkt) (pool cfg : Bytes) : Frame :=
  rewriteHeadersP f p cfg (serverIpOf cfg pool) (UInt32.ofNat (leNat (bytesAt f (p.dhcpOff + 24) 4)))
def frame2 (f : Frame) (p : Pkt) (a pool cfg : Bytes) : Frame :=
  rewriteBootpP (frame1 f p pool cfg) p (rd32 a 4) (serverIpOf cfg pool)
def frame3 (f : Frame) (p : Pkt) (t : UInt8) (a pool cfg : Bytes) : Frame :=
  splice (frame2 f p a pool cfg) (p.dhcpOff + 240) (replyOpts t pool cfg)

theorem replyP_eq : replyP f p t a pool cfg = finishP (frame3 f p t a pool cfg) p (replyOpts t pool cfg).length := rfl

theorem replyOpts_length : 40 ≤ (replyOpts t pool cfg).length ∧ (replyOpts t pool cfg).length ≤ 50 :=
  optsBytes_length _ _ _

theorem frame1_length : (frame1 f p pool cfg).length = f.length := rh_length _ _ _
theorem frame2_length : (frame2 f p a pool cfg).length = f.length := by
  unfold frame2; rw [rb_length, frame1_length]
theorem frame3_length : (frame3 f p t a pool cfg).length = f.length := by
  unfold frame3; rw [splice_length', frame2_length]

include wf hroom

theorem frame3_wf : p.WF (frame3 f p t a pool cfg) := wf.of_length (frame3_length t a pool cfg)

/-- frame3 in front of the options is frame2 -/
theorem frame3_before {o k : Nat} (h : o + k ≤ p.dhcpOff + 240) :
    bytesAt (frame3 f p t a pool cfg) o k = bytesAt (frame2 f p a pool cfg) o k := by
  have hl := frame2_length (f := f) (p := p) a pool cfg
  have ho := replyOpts_length t pool cfg
  unfold frame3
  exact bytesAt_splice_disjoint (by omega) (Or.inl h)

theorem frame3_opts : bytesAt (frame3 f p t a pool cfg) (p.dhcpOff + 240) (replyOpts t pool cfg).length
    = replyOpts t pool cfg := by
  have hl := frame2_length (f := f) (p := p) a pool cfg
  have ho := replyOpts_length t pool cfg
  unfold frame3
  exact bytesAt_splice_same (by omega)

/-- what the reply keeps from the request: EtherType and VLAN tags, IP version/IHL/TOS, id/fragment field,
    protocol, BOOTP htype/hlen, xid/secs/flags/ciaddr, giaddr/chaddr, the magic cookie -/
theorem reply_unchanged {o k : Nat}
    (h : (12 ≤ o ∧ o + k ≤ p.ipOff + 2) ∨ (p.ipOff + 4 ≤ o ∧ o + k ≤ p.ipOff + 8) ∨ (o = p.ipOff + 9 ∧ k = 1) ∨
         (p.dhcpOff + 1 ≤ o ∧ o + k ≤ p.dhcpOff + 3) ∨ (p.dhcpOff + 4 ≤ o ∧ o + k ≤ p.dhcpOff + 16) ∨
         (p.dhcpOff + 24 ≤ o ∧ o + k ≤ p.dhcpOff + 44) ∨ (p.dhcpOff + 236 ≤ o ∧ o + k ≤ p.dhcpOff + 240)) :
    bytesAt (replyP f p t a pool cfg) o k = bytesAt f o k := by
  have ho := replyOpts_length t pool cfg
  have wf3 := frame3_wf wf hroom t a pool cfg
  have l3 := frame3_length (f := f) (p := p) t a pool cfg
  have l1 := frame1_length (f := f) (p := p) pool cfg
  obtain ⟨hv, hip, hudp, hdhcp, hr⟩ := wf
  rw [replyP_eq, fin_unchanged wf3 ho.2 (by omega) (by omega) (by omega)]
  rw [frame3_before ⟨hv, hip, hudp, hdhcp, hr⟩ hroom t a pool cfg (by omega)]
  unfold frame2
  rw [rb_unchanged (by omega) _ _ (by omega)]
  unfold frame1
  exact rh_unchanged ⟨hv, hip, hudp, hdhcp, hr⟩ _ _ _ (by omega) (by omega)

theorem reply_length : (replyP f p t a pool cfg).length = 14 + p.vlanOff + 268 + (replyOpts t pool cfg).length := by
  have ho := replyOpts_length t pool cfg
  have l3 := frame3_length (f := f) (p := p) t a pool cfg
  rw [replyP_eq]
  exact fin_length (frame3_wf wf hroom t a pool cfg) ho.2 (by omega)

theorem reply_iplen : bytesAt (replyP f p t a pool cfg) (p.ipOff + 2) 2
    = leBytes 2 (htons (ipLenOf (replyOpts t pool cfg).length)).toNat := by
  have ho := replyOpts_length t pool cfg
  have l3 := frame3_length (f := f) (p := p) t a pool cfg
  rw [replyP_eq]
  exact fin_iplen (frame3_wf wf hroom t a pool cfg) ho.2 (by omega)

theorem reply_udplen : bytesAt (replyP f p t a pool cfg) (p.udpOff + 4) 2
    = leBytes 2 (htons (udpLenOf (replyOpts t pool cfg).length)).toNat := by
  have ho := replyOpts_length t pool cfg
  have l3 := frame3_length (f := f) (p := p) t a pool cfg
  rw [replyP_eq]
  exact fin_udplen (frame3_wf wf hroom t a pool cfg) ho.2 (by omega)

/-- a window in front of the options that `finish` does not touch reads as in frame2 -/
theorem reply_as_frame2 {o k : Nat} (hk : o + k ≤ p.dhcpOff + 240)
    (hd : (o + k ≤ p.ipOff + 2 ∨ p.ipOff + 4 ≤ o) ∧ (o + k ≤ p.ipOff + 10 ∨ p.ipOff + 12 ≤ o) ∧
          (o + k ≤ p.udpOff + 4 ∨ p.udpOff + 6 ≤ o)) :
    bytesAt (replyP f p t a pool cfg) o k = bytesAt (frame2 f p a pool cfg) o k := by
  have ho := replyOpts_length t pool cfg
  have wf3 := frame3_wf wf hroom t a pool cfg
  have l3 := frame3_length (f := f) (p := p) t a pool cfg
  have hdh := wf.dhcp; have hip := wf.ip
  rw [replyP_eq, fin_unchanged wf3 ho.2 (by omega) (by omega) hd]
  exact frame3_before wf hroom t a pool cfg hk

theorem reply_sport : bytesAt (replyP f p t a pool cfg) p.udpOff 2 = leBytes 2 (htons 67).toNat := by
  have l1 := frame1_length (f := f) (p := p) pool cfg
  have hh := wf
  obtain ⟨hv, hip, hudp, hdhcp, hr⟩ := wf
  rw [reply_as_frame2 hh hroom t a pool cfg (by omega) (by omega)]
  unfold frame2
  rw [rb_unchanged (by omega) _ _ (by omega)]
  exact rh_sport hh _ _ _

theorem reply_dport : bytesAt (replyP f p t a pool cfg) (p.udpOff + 2) 2 =
    leBytes 2 (htons (if UInt32.ofNat (leNat (bytesAt f (p.dhcpOff + 24) 4)) != 0 then 67 else 68)).toNat := by
  have l1 := frame1_length (f := f) (p := p) pool cfg
  have hh := wf
  obtain ⟨hv, hip, hudp, hdhcp, hr⟩ := wf
  rw [reply_as_frame2 hh hroom t a pool cfg (by omega) (by omega)]
  unfold frame2
  rw [rb_unchanged (by omega) _ _ (by omega)]
  exact rh_dport hh _ _ _

theorem reply_op : bytesAt (replyP f p t a pool cfg) p.dhcpOff 1 = [2] := by
  have l1 := frame1_length (f := f) (p := p) pool cfg
  have hh := wf
  obtain ⟨hv, hip, hudp, hdhcp, hr⟩ := wf
  rw [reply_as_frame2 hh hroom t a pool cfg (by omega) (by omega)]
  unfold frame2
  exact rb_op (by omega) _ _

/-- `yiaddr` carries the cached `allocated_ip` bytes as they are stored -/
theorem reply_yiaddr : bytesAt (replyP f p t a pool cfg) (p.dhcpOff + 16) 4 = leBytes 4 (rd32 a 4).toNat := by
  have l1 := frame1_length (f := f) (p := p) pool cfg
  have hh := wf
  obtain ⟨hv, hip, hudp, hdhcp, hr⟩ := wf
  rw [reply_as_frame2 hh hroom t a pool cfg (by omega) (by omega)]
  unfold frame2
  exact rb_yiaddr (by omega) _ _

/-- the options area of the reply is exactly `replyOpts`, and it runs to the end of the frame -/
theorem reply_opts : (replyP f p t a pool cfg).drop (p.dhcpOff + 240) = replyOpts t pool cfg := by
  have ho := replyOpts_length t pool cfg
  have wf3 := frame3_wf wf hroom t a pool cfg
  have l3 := frame3_length (f := f) (p := p) t a pool cfg
  have hlen := reply_length wf hroom t a pool cfg
  have hdh := wf.dhcp; have hip := wf.ip; have hudp := wf.udp
  rw [drop_eq_bytesAt (n := (replyOpts t pool cfg).length) (by omega)]
  rw [replyP_eq, fin_unchanged wf3 ho.2 (by omega) (by omega) (by omega)]
  exact frame3_opts wf hroom t a pool cfg

theorem reply_hdr_ok : headerSumOk (bytesAt (replyP f p t a pool cfg) p.ipOff 20) = true := by
  have ho := replyOpts_length t pool cfg
  have wf3 := frame3_wf wf hroom t a pool cfg
  have l3 := frame3_length (f := f) (p := p) t a pool cfg
  have l1 := frame1_length (f := f) (p := p) pool cfg
  have hh := wf
  obtain ⟨hv, hip, hudp, hdhcp, hr⟩ := wf
  rw [replyP_eq]
  apply fin_hdr_ok wf3 ho.2 (by omega)
  rw [frame3_before hh hroom t a pool cfg (by omega)]
  unfold frame2
  rw [rb_unchanged (by omega) _ _ (by omega)]
  unfold frame1
  rw [rh_ck0 hh]
  rfl

/-- a window in front of the BOOTP message that neither `finish` nor the BOOTP rewrite touches reads as in frame1 -/
theorem reply_as_frame1 {o k : Nat} (hk : o + k ≤ p.dhcpOff)
    (hd : (o + k ≤ p.ipOff + 2 ∨ p.ipOff + 4 ≤ o) ∧ (o + k ≤ p.ipOff + 10 ∨ p.ipOff + 12 ≤ o) ∧
          (o + k ≤ p.udpOff + 4 ∨ p.udpOff + 6 ≤ o)) :
    bytesAt (replyP f p t a pool cfg) o k = bytesAt (frame1 f p pool cfg) o k := by
  have l1 := frame1_length (f := f) (p := p) pool cfg
  have hr := wf.room
  rw [reply_as_frame2 wf hroom t a pool cfg (by omega) hd]
  unfold frame2
  exact rb_unchanged (by omega) _ _ (Or.inl hk)

theorem reply_eth_dst : bytesAt (replyP f p t a pool cfg) 0 6 =
    (if UInt32.ofNat (leNat (bytesAt f (p.dhcpOff + 24) 4)) != 0 then bytesAt f 6 6 else l2Dest f p) := by
  have hh := wf
  obtain ⟨hv, hip, hudp, hdhcp, hr⟩ := wf
  rw [reply_as_frame1 hh hroom t a pool cfg (by omega) (by omega)]
  exact rh_dst hh _ _ _

theorem reply_eth_src : bytesAt (replyP f p t a pool cfg) 6 6 = rdBytes cfg 0 6 := by
  have hh := wf
  obtain ⟨hv, hip, hudp, hdhcp, hr⟩ := wf
  rw [reply_as_frame1 hh hroom t a pool cfg (by omega) (by omega)]
  exact rh_src hh _ _ _

theorem reply_saddr : bytesAt (replyP f p t a pool cfg) (p.ipOff + 12) 4 = leBytes 4 (serverIpOf cfg pool).toNat := by
  have hh := wf
  obtain ⟨hv, hip, hudp, hdhcp, hr⟩ := wf
  rw [reply_as_frame1 hh hroom t a pool cfg (by omega) (by omega)]
  exact rh_saddr hh _ _ _

theorem reply_daddr : bytesAt (replyP f p t a pool cfg) (p.ipOff + 16) 4 =
    leBytes 4 (if UInt32.ofNat (leNat (bytesAt f (p.dhcpOff + 24) 4)) != 0
      then UInt32.ofNat (leNat (bytesAt f (p.dhcpOff + 24) 4)) else IP_BCAST).toNat := by
  have hh := wf
  obtain ⟨hv, hip, hudp, hdhcp, hr⟩ := wf
  rw [reply_as_frame1 hh hroom t a pool cfg (by omega) (by omega)]
  exact rh_daddr hh _ _ _

theorem reply_ttl : bytesAt (replyP f p t a pool cfg) (p.ipOff + 8) 1 = [64] := by
  have hh := wf
  obtain ⟨hv, hip, hudp, hdhcp, hr⟩ := wf
  rw [reply_as_frame1 hh hroom t a pool cfg (by omega) (by omega)]
  exact rh_ttl hh _ _ _

theorem reply_udpck : bytesAt (replyP f p t a pool cfg) (p.udpOff + 6) 2 = leBytes 2 (0 : UInt16).toNat := by
  have hh := wf
  obtain ⟨hv, hip, hudp, hdhcp, hr⟩ := wf
  rw [reply_as_frame1 hh hroom t a pool cfg (by omega) (by omega)]
  exact rh_udpck hh _ _ _

theorem reply_hops : bytesAt (replyP f p t a pool cfg) (p.dhcpOff + 3) 1 = [0] := by
  have l1 := frame1_length (f := f) (p := p) pool cfg
  have hh := wf
  obtain ⟨hv, hip, hudp, hdhcp, hr⟩ := wf
  rw [reply_as_frame2 hh hroom t a pool cfg (by omega) (by omega)]
  unfold frame2
  exact rb_hops (by omega) _ _

theorem reply_siaddr : bytesAt (replyP f p t a pool cfg) (p.dhcpOff + 20) 4 = leBytes 4 (serverIpOf cfg pool).toNat := by
  have l1 := frame1_length (f := f) (p := p) pool cfg
  have hh := wf
  obtain ⟨hv, hip, hudp, hdhcp, hr⟩ := wf
  rw [reply_as_frame2 hh hroom t a pool cfg (by omega) (by omega)]
  unfold frame2
  exact rb_siaddr (by omega) _ _

theorem reply_sname : bytesAt (replyP f p t a pool cfg) (p.dhcpOff + 44) 64 = List.replicate 64 0 := by
  have l1 := frame1_length (f := f) (p := p) pool cfg
  have hh := wf
  obtain ⟨hv, hip, hudp, hdhcp, hr⟩ := wf
  rw [reply_as_frame2 hh hroom t a pool cfg (by omega) (by omega)]
  unfold frame2
  exact rb_sname (by omega) _ _

theorem reply_file : bytesAt (replyP f p t a pool cfg) (p.dhcpOff + 108) 128 = List.replicate 128 0 := by
  have l1 := frame1_length (f := f) (p := p) pool cfg
  have hh := wf
  obtain ⟨hv, hip, hudp, hdhcp, hr⟩ := wf
  rw [reply_as_frame2 hh hroom t a pool cfg (by omega) (by omega)]
  unfold frame2
  exact rb_file (by omega) _ _

end reply

/-! ### the monitor's predicate holds of the transmitted frame -/

theorem be16At_of {g : Frame} {o : Nat} {x : UInt16} (h : bytesAt g o 2 = leBytes 2 (htons x).toNat) :
    be16At g o = x.toNat := by
  have hx : x.toNat < 65536 := x.toNat_lt
  unfold be16At
  rw [h, leBytes2_htons]
  simp only [UInt8.toNat_ofNat']
  omega

theorem ipLenOf_toNat {n : Nat} (h : n ≤ 50) : (ipLenOf n).toNat = 268 + n := by
  simp only [ipLenOf, DHCP_FIXED, UInt16.toNat_add, UInt16.toNat_ofNat', UInt16.toNat_ofNat]
  omega

theorem udpLenOf_toNat {n : Nat} (h : n ≤ 50) : (udpLenOf n).toNat = 248 + n := by
  simp only [udpLenOf, DHCP_FIXED, UInt16.toNat_add, UInt16.toNat_ofNat', UInt16.toNat_ofNat]
  omega

/-- `giaddr != 0` as the program tests it (a `__u32` load) is "the four bytes are not all zero" -/
theorem giaddr_ne_zero_iff (bs : List UInt8) (hl : bs.length = 4) :
    (UInt32.ofNat (leNat bs) != 0) = (bs != [0, 0, 0, 0]) := by
  match bs, hl with
  | [a, b, c, d], _ =>
    have ha := a.toNat_lt; have hb := b.toNat_lt; have hc := c.toNat_lt; have hd := d.toNat_lt
    have hlt : leNat [a, b, c, d] < 4294967296 := by simp only [leNat]; omega
    by_cases hz : [a, b, c, d] = [0, 0, 0, 0]
    · simp only [List.cons.injEq, and_true] at hz
      obtain ⟨rfl, rfl, rfl, rfl⟩ := hz
      rfl
    · have h1 : ([a, b, c, d] != [0, 0, 0, 0]) = true := by simpa using hz
      rw [h1]
      simp only [bne_iff_ne, ne_eq]
      intro h0
      apply hz
      have h2 : (UInt32.ofNat (leNat [a, b, c, d])).toNat = 0 := by rw [h0]; rfl
      rw [UInt32.toNat_ofNat', Nat.mod_eq_of_lt hlt] at h2
      simp only [leNat] at h2
      have e1 : a.toNat = 0 := by omega
      have e2 : b.toNat = 0 := by omega
      have e3 : c.toNat = 0 := by omega
      have e4 : d.toNat = 0 := by omega
      simp only [List.cons.injEq, and_true]
      exact ⟨UInt8.toNat_inj.mp e1, UInt8.toNat_inj.mp e2, UInt8.toNat_inj.mp e3, UInt8.toNat_inj.mp e4⟩

/-- the options `build_dhcp_options` writes are a TLV sequence ending with END as its last byte -/
theorem tlvEnd_optsBytes (t : UInt8) (pool : Bytes) (sip : UInt32) :
    tlvEnd (optsBytes t pool sip).length (optsBytes t pool sip) = some (optsBytes t pool sip).length := by
  unfold optsBytes dnsBytes opt4
  simp only [leBytes4_eq]
  split
  · split <;> simp [tlvEnd]
  · simp [tlvEnd]

/-- the first option is the message type -/
theorem opt53_optsBytes (t : UInt8) (pool : Bytes) (sip : UInt32) : opt 53 (optsBytes t pool sip) = some [t] := by
  unfold optsBytes opt
  simp [tlvGet, opt4, List.length_append]

/-- a 4-byte string loaded as a `__u32` and stored again is the same four bytes -/
theorem leBytes4_leNat (bs : List UInt8) (hl : bs.length = 4) : leBytes 4 (UInt32.ofNat (leNat bs)).toNat = bs := by
  match bs, hl with
  | [a, b, c, d], _ =>
    have ha := a.toNat_lt; have hb := b.toNat_lt; have hc := c.toNat_lt; have hd := d.toNat_lt
    have hlt : leNat [a, b, c, d] < 4294967296 := by simp only [leNat]; omega
    rw [UInt32.toNat_ofNat', Nat.mod_eq_of_lt hlt, leBytes4_eq]
    simp only [leNat]
    have e : ∀ (x : UInt8) (n : Nat), n = x.toNat → UInt8.ofNat n = x := by
      intro x n hn; rw [hn]; exact UInt8.ofNat_toNat
    rw [e a _ (by omega), e b _ (by omega), e c _ (by omega), e d _ (by omega)]

theorem leBytes4_bcast : leBytes 4 IP_BCAST.toNat = [255, 255, 255, 255] := by
  unfold IP_BCAST; decide

/-- **The transmitted frame is a well-formed reply to its request**: every check of the monitor predicate
    `replyDefect` passes on `replyP`, with the server MAC and the server address taken from the cache bytes the
    program answered from. -/
theorem reply_wellformed {f : Frame} {p : Pkt} (wf : p.WF f) (hroom : p.dhcpOff + 240 + 64 ≤ f.length)
    (t : UInt8) (a pool cfg : Bytes) :
    replyDefect f (replyP f p t a pool cfg) p (rdBytes cfg 0 6) (leBytes 4 (serverIpOf cfg pool).toNat) = none := by
  have ho := replyOpts_length t pool cfg
  have hip := wf.ip; have hudp := wf.udp; have hdh := wf.dhcp; have hv := wf.vlan
  have e_len := reply_length wf hroom t a pool cfg
  have e_ip : be16At (replyP f p t a pool cfg) (p.ipOff + 2) = 268 + (replyOpts t pool cfg).length := by
    rw [be16At_of (reply_iplen wf hroom t a pool cfg), ipLenOf_toNat ho.2]
  have e_udp : be16At (replyP f p t a pool cfg) (p.udpOff + 4) = 248 + (replyOpts t pool cfg).length := by
    rw [be16At_of (reply_udplen wf hroom t a pool cfg), udpLenOf_toNat ho.2]
  have hgl : (bytesAt f (p.dhcpOff + 24) 4).length = 4 := by simp only [bytesAt_length]; omega
  have hrel := giaddr_ne_zero_iff _ hgl
  have e_dst : bytesAt (replyP f p t a pool cfg) 0 6 =
      (if (bytesAt f (p.dhcpOff + 24) 4 != [0, 0, 0, 0]) = true then bytesAt f 6 6 else l2Dest f p) := by
    rw [reply_eth_dst wf hroom t a pool cfg, hrel]
  have e_src := reply_eth_src wf hroom t a pool cfg
  have e_l2 := reply_unchanged wf hroom t a pool cfg (o := 12) (k := p.ipOff - 12) (Or.inl (by omega))
  have e_v := reply_unchanged wf hroom t a pool cfg (o := p.ipOff) (k := 2) (Or.inl (by omega))
  have e_ttl := reply_ttl wf hroom t a pool cfg
  have e_pr := reply_unchanged wf hroom t a pool cfg (o := p.ipOff + 9) (k := 1) (Or.inr (Or.inr (Or.inl ⟨rfl, rfl⟩)))
  have e_sa := reply_saddr wf hroom t a pool cfg
  have e_da : bytesAt (replyP f p t a pool cfg) (p.ipOff + 16) 4 =
      (if (bytesAt f (p.dhcpOff + 24) 4 != [0, 0, 0, 0]) = true then bytesAt f (p.dhcpOff + 24) 4 else [255, 255, 255, 255]) := by
    rw [reply_daddr wf hroom t a pool cfg, hrel]
    split
    · exact leBytes4_leNat _ hgl
    · exact leBytes4_bcast
  have e_ck := reply_hdr_ok wf hroom t a pool cfg
  have e_sp : be16At (replyP f p t a pool cfg) p.udpOff = 67 := by
    rw [be16At_of (reply_sport wf hroom t a pool cfg)]; rfl
  have e_dp : be16At (replyP f p t a pool cfg) (p.udpOff + 2)
      = (if (bytesAt f (p.dhcpOff + 24) 4 != [0, 0, 0, 0]) = true then 67 else 68) := by
    rw [be16At_of (reply_dport wf hroom t a pool cfg), hrel]
    split <;> rfl
  have e_uc : bytesAt (replyP f p t a pool cfg) (p.udpOff + 6) 2 = [0, 0] := by
    rw [reply_udpck wf hroom t a pool cfg]; rfl
  have e_op := reply_op wf hroom t a pool cfg
  have e_ht := reply_unchanged wf hroom t a pool cfg (o := p.dhcpOff + 1) (k := 2)
    (Or.inr (Or.inr (Or.inr (Or.inl (by omega)))))
  have e_hops := reply_hops wf hroom t a pool cfg
  have e_xid := reply_unchanged wf hroom t a pool cfg (o := p.dhcpOff + 4) (k := 12)
    (Or.inr (Or.inr (Or.inr (Or.inr (Or.inl (by omega))))))
  have e_si := reply_siaddr wf hroom t a pool cfg
  have e_ch := reply_unchanged wf hroom t a pool cfg (o := p.dhcpOff + 24) (k := 20)
    (Or.inr (Or.inr (Or.inr (Or.inr (Or.inr (Or.inl (by omega)))))))
  have e_sn := reply_sname wf hroom t a pool cfg
  have e_fl := reply_file wf hroom t a pool cfg
  have e_mg := reply_unchanged wf hroom t a pool cfg (o := p.dhcpOff + 236) (k := 4)
    (Or.inr (Or.inr (Or.inr (Or.inr (Or.inr (Or.inr (by omega)))))))
  have e_opts := reply_opts wf hroom t a pool cfg
  have e_tlv : tlvEnd (replyOpts t pool cfg).length (replyOpts t pool cfg) = some (replyOpts t pool cfg).length :=
    tlvEnd_optsBytes _ _ _
  unfold replyDefect
  simp only [e_len, e_ip, e_udp, e_dst, e_src, e_l2, e_v, e_ttl, e_pr, e_sa, e_da, e_ck, e_sp, e_dp, e_uc, e_op, e_ht,
    e_hops, e_xid, e_si, e_ch, e_sn, e_fl, e_mg, e_opts, e_tlv]
  have h1 : 14 + p.vlanOff + 268 + (replyOpts t pool cfg).length = 14 + p.vlanOff + (268 + (replyOpts t pool cfg).length) := by
    omega
  have h2 : 248 + (replyOpts t pool cfg).length + 20 = 268 + (replyOpts t pool cfg).length := by omega
  simp only [h1, h2, bne_self_eq_false, Bool.false_eq_true, if_false, Bool.not_true]

/-- the reply's message type is OFFER for a (detected) DISCOVER and ACK for a (detected) REQUEST -/
theorem reply_type {f : Frame} {p : Pkt} (wf : p.WF f) (hroom : p.dhcpOff + 240 + 64 ≤ f.length)
    (t : UInt8) (a pool cfg : Bytes) :
    opt 53 ((replyP f p t a pool cfg).drop (p.dhcpOff + 240)) = some [replyTypeOf t] := by
  rw [reply_opts wf hroom t a pool cfg]
  exact opt53_optsBytes _ _ _
