import Bng.Model.DhcpTermMonitor
import Bng.Proof.DhcpTerm
/-
  The dhcpterm monitor against the model: on every history of `Op` the monitor (Bng.DhcpTerm.monitorCore), run on the
  model's own observations, raises nothing but the clauses of the recorded findings KF-dhcp4-offer-pinned and
  KF-dhcp4-shutdown-residue.  Invariant `W` on the model (the resource invariant `Inv []`, unique keys in the lease
  and accounting tables, no stale index entry, no early Stop), relation `Rel` between model and monitor state.
-/
namespace Bng.DhcpTerm
open Bng AMap

/-! ### canonical order keeps the elements -/

theorem mem_insertBy {α : Type} (le : α → α → Bool) (x y : α) (l : List α) : y ∈ insertBy le x l ↔ y = x ∨ y ∈ l := by
  induction l with
  | nil => simp [insertBy]
  | cons z rest ih =>
    unfold insertBy
    split
    · simp
    · simp only [List.mem_cons, ih]
      constructor
      · rintro (h | h | h)
        · exact Or.inr (Or.inl h)
        · exact Or.inl h
        · exact Or.inr (Or.inr h)
      · rintro (h | h | h)
        · exact Or.inr (Or.inl h)
        · exact Or.inl h
        · exact Or.inr (Or.inr h)

theorem mem_foldl_insertBy {α : Type} (le : α → α → Bool) (l acc : List α) (y : α) :
    y ∈ l.foldl (fun acc x => insertBy le x acc) acc ↔ y ∈ acc ∨ y ∈ l := by
  induction l generalizing acc with
  | nil => simp
  | cons x rest ih =>
    simp only [List.foldl_cons, ih, mem_insertBy, List.mem_cons]
    constructor
    · rintro ((h | h) | h)
      · exact Or.inr (Or.inl h)
      · exact Or.inl h
      · exact Or.inr (Or.inr h)
    · rintro (h | h | h)
      · exact Or.inl (Or.inr h)
      · exact Or.inl (Or.inl h)
      · exact Or.inr h

theorem mem_sortBy {α : Type} (le : α → α → Bool) (l : List α) (y : α) : y ∈ sortBy le l ↔ y ∈ l := by
  unfold sortBy
  rw [mem_foldl_insertBy]
  simp

/-! ### `early` is untouched by every operation of `Op` -/

theorem cache_early (s : State) (m : Nat) (cid : Option Nat) : (cache s m cid).early = s.early :=
  cache_early' s m cid

theorem dropStale_early (s : State) (m : Nat) (old new : Option Nat) : (dropStale s m old new).early = s.early := by
  unfold dropStale
  cases old with
  | none => rfl
  | some oc => simp only; split <;> rfl

theorem finish_early (s : State) (m : Nat) (l : Lease) (d : Bool) : (finish s m l d).early = s.early := rfl

theorem expireOne_early (t : Nat) (s : State) (a : Nat) : (expireOne t s a).early = s.early := by
  rw [expireOne_eq]
  cases lookup s.leases a with
  | none => rfl
  | some l => simp only; split <;> rfl

theorem applyList_early (t : Nat) (macs : List Nat) (s : State) : (applyList t s macs).early = s.early := by
  unfold applyList
  induction macs generalizing s with
  | nil => rfl
  | cons a rest ih => simp only [List.foldl_cons]; rw [ih, expireOne_early]

theorem term_early (t : Term) (s : State) : (t.run s).early = s.early := by
  cases t with
  | rel m =>
    show (release s m).early = s.early
    rw [release_eq]; cases lookup s.leases m <;> rfl
  | dec m ip =>
    show (decline s m ip).early = s.early
    rw [decline_eq]
    cases lookup s.leases m with
    | none => rfl
    | some l => simp only; split <;> rfl
  | cleanup o => exact applyList_early _ _ _

theorem step_early (s : State) (op : Op) : (step s op).1.early = s.early := by
  cases op with
  | disc m =>
    simp only [step, discover]
    cases lookup s.leases m with
    | none =>
      simp only
      cases hq : s.pool.allocate m with
      | mk p o => cases o <;> rfl
    | some l =>
      simp only
      split
      · rfl
      · cases hq : s.pool.allocate m with
        | mk p o => cases o <;> rfl
  | req m ip cid =>
    simp only [step, request]
    cases lookup s.leases m with
    | none =>
      simp only [establish]
      split
      · rfl
      · cases hq : s.pool.reserve m ip with
        | mk p ok =>
          cases ok
          · rfl
          · simp only [natInstall_early, qosInstall_early, cache_early]
    | some l =>
      simp only [renew]
      split
      · rfl
      · simp only [(recache_rest _ _ _ _).2.2.2.2.1]
  | term t => exact term_early t s
  | tick n => rfl
  | gap o inner =>
    simp only [step, gap]
    split
    · rfl
    · simp only [applyList_early, term_early]
  | split a b =>
    simp only [step]
    cases a with
    | rel m =>
      simp only [split, takeRelease]
      cases lookup s.leases m with
      | none => exact term_early b s
      | some l => simp only [releaseTail_eq, finish_early, term_early]
    | dec m ip =>
      simp only [split, takeDecline]
      cases lookup s.leases m with
      | none => exact term_early b s
      | some l =>
        by_cases e : l.ip = ip
        · simp only [e, if_true, declineTail_eq, finish_early, term_early]
        · simp only [e, if_false]; exact term_early b s
    | cleanup o => simp only [split, term_early]; exact applyList_early _ _ _
  | shutdown => rfl
  | fault w on => exact setFault_early s w on


/-! ### the lease and accounting tables have unique keys -/

def ND (s : State) : Prop := NodupKeys s.leases ∧ NodupKeys s.acct

theorem nd_finish {s : State} (h : ND s) (m : Nat) (l : Lease) (d : Bool) : ND (finish s m l d) := by
  refine ⟨h.1, ?_⟩
  show NodupKeys (if s.radius = true then addStop s.acct l.sess m else s.acct)
  split
  · unfold addStop; split <;> exact nodupKeys_insert h.2 _ _
  · exact h.2

theorem nd_takeOut {s : State} (h : ND s) (m : Nat) : ND (takeOut s m) := ⟨nodupKeys_erase h.1 m, h.2⟩

theorem nd_expireOne {s : State} (h : ND s) (t m : Nat) : ND (expireOne t s m) := by
  rw [expireOne_eq]
  cases lookup s.leases m with
  | none => exact h
  | some l => simp only; split
              · exact nd_finish (nd_takeOut h m) m l false
              · exact h

theorem nd_applyList (t : Nat) (macs : List Nat) {s : State} (h : ND s) : ND (applyList t s macs) := by
  unfold applyList
  induction macs generalizing s with
  | nil => exact h
  | cons a rest ih => exact ih (nd_expireOne h t a)

theorem nd_term {s : State} (h : ND s) (t : Term) : ND (t.run s) := by
  cases t with
  | rel m =>
    show ND (release s m)
    rw [release_eq]
    cases lookup s.leases m with
    | none => exact h
    | some l => exact nd_finish (nd_takeOut h m) m l false
  | dec m ip =>
    show ND (decline s m ip)
    rw [decline_eq]
    cases lookup s.leases m with
    | none => exact h
    | some l => simp only; split
                · exact nd_finish (nd_takeOut h m) m l true
                · exact h
  | cleanup o => exact nd_applyList _ _ h

theorem nd_step {s : State} (h : ND s) (op : Op) : ND (step s op).1 := by
  cases op with
  | disc m =>
    simp only [step, discover]
    cases lookup s.leases m with
    | none =>
      simp only
      cases hq : s.pool.allocate m with
      | mk p o => cases o <;> exact h
    | some l =>
      simp only
      split
      · exact h
      · cases hq : s.pool.allocate m with
        | mk p o => cases o <;> exact h
  | req m ip cid =>
    simp only [step, request]
    cases lookup s.leases m with
    | none =>
      simp only [establish]
      split
      · exact h
      · cases hq : s.pool.reserve m ip with
        | mk p ok =>
          cases ok
          · exact h
          · simp only
            refine ⟨?_, ?_⟩
            · show NodupKeys (natInstall (qosInstall (cache _ m cid) ip) ip).leases
              rw [(natInstall_rest _ _).2.2.2.1, (qosInstall_rest _ _).2.2.2.1, (cache_rest _ _ _).2.2.2.1]
              exact nodupKeys_insert h.1 _ _
            · show NodupKeys (if s.radius = true then addStart (cache _ m cid).acct _ m else (cache _ m cid).acct)
              rw [(cache_rest _ _ _).2.2.2.2.2.2.2.1]
              split
              · unfold addStart; split <;> exact nodupKeys_insert h.2 _ _
              · exact h.2
    | some l =>
      simp only [renew]
      split
      · exact h
      · refine ⟨?_, ?_⟩
        · show NodupKeys (recache _ m l.cid _).leases
          rw [(recache_rest _ _ _ _).2.1]
          exact nodupKeys_insert h.1 _ _
        · show NodupKeys (recache _ m l.cid _).acct
          rw [(recache_rest _ _ _ _).2.2.1]
          exact h.2
  | term t => exact nd_term h t
  | tick n => exact h
  | gap o inner =>
    simp only [step, gap]
    split
    · exact h
    · exact nd_applyList _ _ (nd_term h inner)
  | split a b =>
    simp only [step]
    cases a with
    | rel m =>
      simp only [split, takeRelease]
      cases lookup s.leases m with
      | none => exact nd_term h b
      | some l => simp only [releaseTail_eq]; exact nd_finish (nd_term (nd_takeOut h m) b) m l false
    | dec m ip =>
      simp only [split, takeDecline]
      cases lookup s.leases m with
      | none => exact nd_term h b
      | some l =>
        by_cases e : l.ip = ip
        · simp only [e, if_true, declineTail_eq]; exact nd_finish (nd_term (nd_takeOut h m) b) m l true
        · simp only [e, if_false]; exact nd_term h b
    | cleanup o => simp only [split]; exact nd_term (nd_applyList _ _ h) b
  | shutdown => exact h
  | fault w on =>
    simp only [step, setFault]
    repeat' split
    all_goals exact h

/-! ### the invariant on the model -/

structure W (s : State) : Prop where
  inv : Inv [] s
  nd : ND s
  stale : s.stale = []
  early : s.early = []

theorem W_init (radius : Bool) (lt : Nat) : W (init radius lt) :=
  ⟨inv_init radius lt, ⟨nodupKeys_nil, nodupKeys_nil⟩, rfl, rfl⟩

theorem W_step {s : State} (h : W s) (op : Op) : W (step s op).1 :=
  ⟨inv_step h.inv op, nd_step h.nd op, (step_stale s op).trans h.stale, (step_early s op).trans h.early⟩

/-! ### what the structured observation says about the state -/

theorem obs_leases_mem (s : State) (m ip e : Nat) (c : Option Nat) :
    (m, ip, e, c) ∈ (obsOf s).leases ↔ ∃ l, (m, l) ∈ s.leases ∧ ip = l.ip ∧ e = l.exp ∧ c = l.cid := by
  simp only [obsOf, List.mem_map, mem_sortBy]
  constructor
  · rintro ⟨⟨k, l⟩, h1, h2⟩
    simp only [Prod.mk.injEq] at h2
    obtain ⟨rfl, rfl, rfl, rfl⟩ := h2
    exact ⟨l, h1, rfl, rfl, rfl⟩
  · rintro ⟨l, h1, rfl, rfl, rfl⟩
    exact ⟨(m, l), h1, rfl⟩

theorem obs_leaseOf_isSome (s : State) (m : Nat) : ((obsOf s).leaseOf m).isSome = (lookup s.leases m).isSome := by
  unfold Snap.leaseOf
  rw [Option.isSome_map]
  cases h : lookup s.leases m with
  | some l =>
    simp only [Option.isSome_some]
    rw [List.find?_isSome]
    exact ⟨(m, l.ip, l.exp, l.cid), (obs_leases_mem s m _ _ _).mpr ⟨l, mem_of_lookup h, rfl, rfl, rfl⟩, by simp⟩
  | none =>
    simp only [Option.isSome_none]
    cases hf : List.find? (fun e => e.fst == m) (obsOf s).leases with
    | none => rfl
    | some x =>
      exfalso
      obtain ⟨m', ip, e, c⟩ := x
      have hm := List.mem_of_find?_eq_some hf
      have hk := List.find?_some hf
      simp only [beq_iff_eq] at hk
      subst hk
      obtain ⟨l, hl, _⟩ := (obs_leases_mem s m' ip e c).mp hm
      have : m' ∈ keys s.leases := by simp only [keys, List.mem_map]; exact ⟨(m', l), hl, rfl⟩
      exact lookup_eq_none_iff.mp h this

theorem obs_live (s : State) (ip : Nat) : (obsOf s).live ip = true ↔ ∃ m l, (m, l) ∈ s.leases ∧ l.ip = ip := by
  unfold Snap.live
  rw [List.any_eq_true]
  constructor
  · rintro ⟨⟨m, a, e, c⟩, hm, hk⟩
    simp only [beq_iff_eq] at hk
    obtain ⟨l, hl, h1, _, _⟩ := (obs_leases_mem s m a e c).mp hm
    exact ⟨m, l, hl, by rw [← h1]; exact hk⟩
  · rintro ⟨m, l, hl, rfl⟩
    exact ⟨(m, l.ip, l.exp, l.cid), (obs_leases_mem s m _ _ _).mpr ⟨l, hl, rfl, rfl, rfl⟩, by simp⟩

theorem obs_hasCid (s : State) (m c : Nat) :
    (obsOf s).hasCid (m, c) = true ↔ ∃ l, (m, l) ∈ s.leases ∧ l.cid = some c := by
  unfold Snap.hasCid
  rw [List.any_eq_true]
  constructor
  · rintro ⟨⟨m', a, e, c'⟩, hm, hk⟩
    simp only [Bool.and_eq_true, beq_iff_eq] at hk
    obtain ⟨rfl, rfl⟩ := hk
    obtain ⟨l, hl, _, _, h3⟩ := (obs_leases_mem s m' a e _).mp hm
    exact ⟨l, hl, h3.symm⟩
  · rintro ⟨l, hl, hc⟩
    exact ⟨(m, l.ip, l.exp, l.cid), (obs_leases_mem s m _ _ _).mpr ⟨l, hl, rfl, rfl, rfl⟩, by simp [hc]⟩

theorem obs_binds (s : State) (m : Nat) : (obsOf s).binds m = (lookup s.pool.allocated m).isSome := by
  unfold Snap.binds
  cases h : lookup s.pool.allocated m with
  | some a =>
    simp only [Option.isSome_some, List.any_eq_true]
    exact ⟨(m, a), by simp only [obsOf, mem_sortBy]; exact mem_of_lookup h, by simp⟩
  | none =>
    simp only [Option.isSome_none, List.any_eq_false]
    rintro ⟨m', a⟩ hm
    simp only [obsOf, mem_sortBy] at hm
    simp only [beq_iff_eq]
    rintro rfl
    have : m' ∈ keys s.pool.allocated := by simp only [keys, List.mem_map]; exact ⟨(m', a), hm, rfl⟩
    exact lookup_eq_none_iff.mp h this

theorem obs_acct_mem (s : State) (o m st sp : Nat) :
    (o, m, st, sp) ∈ (obsOf s).acct ↔ ∃ r, (o, r) ∈ s.acct ∧ m = r.mac ∧ st = r.starts ∧ sp = r.stops := by
  simp only [obsOf, List.mem_map, mem_sortBy]
  constructor
  · rintro ⟨⟨k, r⟩, h1, h2⟩
    simp only [Prod.mk.injEq] at h2
    obtain ⟨rfl, rfl, rfl, rfl⟩ := h2
    exact ⟨r, h1, rfl, rfl, rfl⟩
  · rintro ⟨r, h1, rfl, rfl, rfl⟩
    exact ⟨(o, r), h1, rfl⟩

/-! ### no orphans: the per-lease residue clauses -/

theorem obs_no_orphans {s : State} (h : W s) :
    (obsOf s).orphanNat false = [] ∧ (obsOf s).orphanQos false = [] ∧ (obsOf s).orphanMac false = [] ∧
    (obsOf s).orphanCid false = [] ∧ (obsOf s).orphanHash false = [] ∧ (obsOf s).orphanIdx false = [] := by
  have hI := h.inv
  refine ⟨?_, ?_, ?_, ?_, ?_, ?_⟩
  · unfold Snap.orphanNat
    rw [List.filter_eq_nil_iff]
    intro a ha
    have ha' : a ∈ s.nat := by simpa [obsOf, sortNat, mem_sortBy] using ha
    obtain ⟨m, l, h1, h2⟩ := hI.nat a ha'
    have := (obs_live s a).mpr ⟨m, l, mem_of_lookup (owner_nil.mp h1), h2⟩
    simp [this]
  · unfold Snap.orphanQos
    rw [List.filter_eq_nil_iff]
    intro a ha
    have ha' : a ∈ s.qos := by simpa [obsOf, sortNat, mem_sortBy] using ha
    obtain ⟨m, l, h1, h2⟩ := hI.qos a ha'
    have := (obs_live s a).mpr ⟨m, l, mem_of_lookup (owner_nil.mp h1), h2⟩
    simp [this]
  · unfold Snap.orphanMac
    rw [List.filter_eq_nil_iff]
    intro m hm
    have hm' : m ∈ s.kMac := by simpa [obsOf, sortNat, mem_sortBy] using hm
    obtain ⟨l, h1⟩ := hI.kMac m hm'
    have : ((obsOf s).leaseOf m).isSome = true := by rw [obs_leaseOf_isSome, owner_nil.mp h1]; rfl
    cases hx : (obsOf s).leaseOf m with
    | none => rw [hx] at this; cases this
    | some x => simp
  · unfold Snap.orphanCid
    rw [List.filter_eq_nil_iff]
    rintro ⟨m, c⟩ hm
    have hm' : (m, c) ∈ s.kCid := by simpa [obsOf, sortPair, mem_sortBy] using hm
    obtain ⟨l, h1, h2⟩ := hI.kCid m c hm'
    have := (obs_hasCid s m c).mpr ⟨l, mem_of_lookup (owner_nil.mp h1), h2⟩
    simp [this]
  · unfold Snap.orphanHash
    rw [List.filter_eq_nil_iff]
    rintro ⟨m, c⟩ hm
    have hm' : (m, c) ∈ s.kHash := by simpa [obsOf, sortPair, mem_sortBy] using hm
    obtain ⟨l, h1, h2⟩ := hI.kHash m c hm'
    have := (obs_hasCid s m c).mpr ⟨l, mem_of_lookup (owner_nil.mp h1), h2⟩
    simp [this]
  · unfold Snap.orphanIdx
    rw [List.filter_eq_nil_iff]
    rintro ⟨m, c⟩ hm
    simp only [obsOf, h.stale, List.append_nil, List.map_map, List.mem_map, mem_sortBy, List.mem_filterMap,
      Function.comp] at hm
    obtain ⟨⟨k, l⟩, ⟨⟨m0, l0⟩, h1, h2⟩, h3⟩ := hm
    cases hc : l0.cid with
    | none => simp [hc] at h2
    | some c0 =>
      simp only [hc, Option.map_some, Option.some.injEq, Prod.mk.injEq] at h2
      obtain ⟨⟨rfl, rfl⟩, rfl⟩ := h2
      simp only [Prod.mk.injEq] at h3
      obtain ⟨rfl, rfl⟩ := h3
      have := (obs_hasCid s m0 c0).mpr ⟨l0, h1, hc⟩
      simp [this]

/-! ### clause by clause -/

def KFshutdown : String := "KF-dhcp4-shutdown-residue"
def KFoffer : String := "KF-dhcp4-offer-pinned"

theorem clFor_shutdown (before after : Snap) (k : Kind) (h : k.shutdown = true) (name : String) (m : Nat)
    (hn : ["addr-not-returned", "nat-residue", "qos-residue", "cache-residue", "missing-stop"].contains name = true) :
    clFor before after k name m = KFshutdown := by
  unfold clFor
  rw [if_pos h, if_pos hn]
  rfl

/-- per-lease residue: on the model nothing is ever left that no lease accounts for; only a shutdown (which ends every
    session and removes nothing) makes the monitor speak, with the clause of its finding -/
theorem vOrphans_ok (before : Snap) {s' : State} (h : W s') (k : Kind) :
    ∀ v ∈ vOrphans before (obsOf s') k, v.2.1 = KFshutdown := by
  obtain ⟨o1, o2, o3, o4, o5, o6⟩ := obs_no_orphans h
  intro v hv
  unfold vOrphans at hv
  rw [o6] at hv
  cases hs : k.shutdown with
  | false =>
    rw [hs, o1, o2, o3, o4, o5] at hv
    simp at hv
  | true =>
    simp only [List.mem_append, List.mem_map, List.filter_nil, List.map_nil, List.not_mem_nil, or_false] at hv
    rcases hv with (((⟨a, _, rfl⟩ | ⟨a, _, rfl⟩) | ⟨a, _, rfl⟩) | ⟨a, _, rfl⟩) | ⟨a, _, rfl⟩
    all_goals first
      | exact clFor_shutdown _ _ _ hs _ _ (by decide)
      | (show clCache _ _ k _ _ = KFshutdown
         unfold clCache
         rw [hs]
         exact clFor_shutdown _ _ _ hs _ _ (by decide))

theorem vVlan_ok {s' : State} (h : W s') : vVlan (obsOf s') = [] := by
  unfold vVlan
  have : (obsOf s').kVlan = [] := by simp [obsOf, h.inv.kVlan]
  rw [this]; rfl

theorem vSkew_ok (s' : State) : vSkew (obsOf s') = [] := rfl

theorem vOffer_ok (before after : Snap) (k : Kind) : ∀ v ∈ vOffer before after k, v.2.1 = KFoffer := by
  intro v hv
  unfold vOffer at hv
  simp only [List.mem_map] at hv
  obtain ⟨m, _, rfl⟩ := hv
  rfl

/-- accounting: no second Stop, no Stop without Start, no Stop before its Start -/
theorem vAcct_ok (before : Snap) {s' : State} (h : W s') (k : Kind) : vAcct before (obsOf s') k = [] := by
  unfold vAcct
  rw [List.flatMap_eq_nil_iff]
  rintro ⟨o, m, st, sp⟩ hm
  obtain ⟨r, hr, rfl, rfl, rfl⟩ := (obs_acct_mem s' o m st sp).mp hm
  obtain ⟨_, h2, h3, _⟩ := h.inv.acctRec o r (lookup_of_mem h.nd.2 hr)
  have he : (obsOf s').early = [] := by simp [obsOf, h.early]
  have h4 : ¬ (r.stops > 1) := by omega
  simp [h2, h4, he]

/-! ### the sessions the monitor expects an operation to end -/

/-- why the monitor expects the session of `m` (lease `l`) to be ended by an operation of kind `k` -/
def Aimed (k : Kind) (now m : Nat) (l : Lease) : Prop :=
  k.terms.any (fun t => t.1 == m && t.2.isNone) = true ∨ k.terms.any (fun t => t.1 == m && t.2 == some l.ip) = true ∨
  (k.sweep = true ∧ now > l.exp)

theorem ended_sound {s : State} (hnd : ND s) {k : Kind} (hs : k.shutdown = false) (he : k.established = none)
    {m ip : Nat} {path : String} (h : (m, ip, path) ∈ ended (obsOf s) k) :
    ∃ l, lookup s.leases m = some l ∧ l.ip = ip ∧ Aimed k s.now m l := by
  unfold ended at h
  simp only [hs, Bool.false_eq_true, if_false, he] at h
  have key : ∀ (m' ip' e : Nat) (c : Option Nat), (m', ip', e, c) ∈ (obsOf s).leases →
      ∃ l, lookup s.leases m' = some l ∧ l.ip = ip' ∧ l.exp = e := by
    intro m' ip' e c hm
    obtain ⟨l, hl, h1, h2, _⟩ := (obs_leases_mem s m' ip' e c).mp hm
    exact ⟨l, lookup_of_mem hnd.1 hl, h1.symm, h2.symm⟩
  rw [List.mem_append] at h
  rcases h with h | h
  · rw [List.mem_filterMap] at h
    obtain ⟨⟨m', ip', e, c⟩, hm, hx⟩ := h
    obtain ⟨l, hl, rfl, rfl⟩ := key m' ip' e c hm
    simp only at hx
    split at hx
    · rename_i h1
      injection hx with hx; injection hx with e1 e2; injection e2 with e2 _
      subst e1; subst e2
      exact ⟨l, hl, rfl, Or.inl h1⟩
    · split at hx
      · rename_i h1
        injection hx with hx; injection hx with e1 e2; injection e2 with e2 _
        subst e1; subst e2
        exact ⟨l, hl, rfl, Or.inr (Or.inl h1)⟩
      · cases hx
  · rw [List.mem_filter] at h
    have h := h.1
    split at h
    · rename_i hsw
      rw [List.mem_filterMap] at h
      obtain ⟨⟨m', ip', e, c⟩, hm, hx⟩ := h
      obtain ⟨l, hl, rfl, rfl⟩ := key m' ip' e c hm
      simp only at hx
      split at hx
      · rename_i h1
        injection hx with hx; injection hx with e1 e2; injection e2 with e2 _
        subst e1; subst e2
        have : (obsOf s).now = s.now := rfl
        exact ⟨l, hl, rfl, Or.inr (Or.inr ⟨hsw, by rw [← this]; simpa using h1⟩)⟩
      · cases hx
    · simp at h

theorem ended_complete {s : State} {k : Kind} (hs : k.shutdown = false) (he : k.established = none)
    {m : Nat} {l : Lease} (hl : lookup s.leases m = some l) (ha : Aimed k s.now m l) :
    ended (obsOf s) k ≠ [] := by
  have hm : (m, l.ip, l.exp, l.cid) ∈ (obsOf s).leases :=
    (obs_leases_mem s m _ _ _).mpr ⟨l, mem_of_lookup hl, rfl, rfl, rfl⟩
  unfold ended
  simp only [hs, Bool.false_eq_true, if_false, he]
  intro hnil
  rw [List.append_eq_nil_iff] at hnil
  obtain ⟨h1, h2⟩ := hnil
  rcases ha with ha | ha | ⟨hsw, ht⟩
  · have : (m, l.ip, "RELEASE") ∈ ([] : List (Nat × Nat × String)) := by
      rw [← h1, List.mem_filterMap]
      exact ⟨_, hm, by simp [ha]⟩
    simp at this
  · have : ∃ p, (m, l.ip, p) ∈ ([] : List (Nat × Nat × String)) := by
      rw [← h1]
      by_cases hr : k.terms.any (fun t => t.1 == m && t.2.isNone) = true
      · exact ⟨"RELEASE", List.mem_filterMap.mpr ⟨_, hm, by simp [hr]⟩⟩
      · exact ⟨"DECLINE", List.mem_filterMap.mpr ⟨_, hm, by simp [hr, ha]⟩⟩
    obtain ⟨p, hp⟩ := this
    simp at hp
  · have : (m, l.ip, "expiry") ∈ ([] : List (Nat × Nat × String)) := by
      rw [← h2, List.mem_filter]
      refine ⟨?_, by rw [h1]; rfl⟩
      rw [if_pos hsw, List.mem_filterMap]
      refine ⟨_, hm, ?_⟩
      have : (obsOf s).now = s.now := rfl
      simp [this, ht]
    simp at this

/-! ### a session the model has ended passes the monitor's per-session checks -/

theorem endChecks_ok {s s' : State} (h : W s) (h' : W s') (hr : s'.radius = s.radius) (before : Snap)
    (hb : before = obsOf s) (k : Kind) {m : Nat} {l : Lease} (hl : lookup s.leases m = some l) {d : Bool}
    (hE : Ended s' m l d) (path : String) : endChecks before (obsOf s') k (m, l.ip, path) = [] := by
  subst hb
  unfold endChecks
  simp only
  have h1 : ((obsOf s').leaseOf m).isSome = false := by rw [obs_leaseOf_isSome, hE.noLease]; rfl
  have h2 : (obsOf s').binds m = false := by rw [obs_binds, hE.noBinding]; rfl
  have h3 : ((obsOf s').free.contains l.ip || (obsOf s').unavail.contains l.ip) = true := by
    have hab := hE.addrBack
    cases d
    · simp only [Bool.false_eq_true, if_false] at hab
      have : (obsOf s').free.contains l.ip = true := by simp [obsOf, hab]
      rw [this]; rfl
    · simp only [if_true] at hab
      have : (obsOf s').unavail.contains l.ip = true := by simp [obsOf, sortNat, mem_sortBy, hab]
      rw [this]; simp
  have h3' : (!(obsOf s').free.contains l.ip && !(obsOf s').unavail.contains l.ip) = false := by
    cases hf : (obsOf s').free.contains l.ip <;> cases hu : (obsOf s').unavail.contains l.ip <;> simp_all
  rw [h1, h2, h3']
  simp only [Bool.or_self, Bool.false_eq_true, if_false, List.nil_append]
  rw [List.flatMap_eq_nil_iff]
  rintro ⟨o, am, st, sp⟩ hm
  rw [List.mem_filter] at hm
  obtain ⟨hm, hc⟩ := hm
  simp only [Bool.and_eq_true, beq_iff_eq, decide_eq_true_eq] at hc
  obtain ⟨⟨rfl, hst⟩, rfl⟩ := hc
  obtain ⟨r, hr0, hmac, _, hsp⟩ := (obs_acct_mem s o am st 0).mp hm
  have hlk := lookup_of_mem h.nd.2 hr0
  obtain ⟨_, _, _, h4⟩ := h.inv.acctRec o r hlk
  obtain ⟨l', h5, h6⟩ := h4 hsp.symm
  have h5' := owner_nil.mp h5
  rw [← hmac, hl] at h5'
  cases h5'
  -- a RADIUS client is configured (there are records), so the ended session has its Stop
  have hrad : s.radius = true := by
    cases hq : s.radius with
    | true => rfl
    | false => rw [h.inv.acctOff hq] at hr0; simp at hr0
  have hstop := hE.stop
  rw [hr, hrad] at hstop
  simp only [if_true] at hstop
  subst h6
  have hin : (l.sess, am, 1, 1) ∈ (obsOf s').acct :=
    (obs_acct_mem s' _ _ _ _).mpr ⟨⟨am, 1, 1⟩, mem_of_lookup hstop, rfl, rfl, rfl⟩
  simp only
  cases hf : List.find? (fun r => r.1 == l.sess) (obsOf s').acct with
  | none =>
    have := List.find?_eq_none.mp hf _ hin
    simp at this
  | some x =>
    obtain ⟨o2, m2, st2, sp2⟩ := x
    have hx := List.mem_of_find?_eq_some hf
    have hk := List.find?_some hf
    simp only [beq_iff_eq] at hk
    subst hk
    obtain ⟨r2, hr2, _, _, hsp2⟩ := (obs_acct_mem s' _ m2 st2 sp2).mp hx
    have := lookup_of_mem h'.nd.2 hr2
    rw [hstop] at this
    cases this
    simp [hsp2]

/-! ### on the model an operation ends exactly the sessions the monitor expects it to end -/

/-- the RELEASE/DECLINE part of `Aimed`, for one termination -/
def MsgAimed (t : Term) (m : Nat) (l : Lease) : Prop :=
  (termKind t).any (fun x => x.1 == m && x.2.isNone) = true ∨ (termKind t).any (fun x => x.1 == m && x.2 == some l.ip) = true

theorem flag_of_msg {t : Term} {m : Nat} {l : Lease} (h : MsgAimed t m l) (now : Nat) :
    ∃ d, t.endsFlag now m l = some d := by
  cases t with
  | rel m' =>
    simp only [MsgAimed, termKind, List.any_cons, List.any_nil, Bool.or_false, Bool.and_eq_true, beq_iff_eq] at h
    rcases h with ⟨rfl, _⟩ | ⟨_, h⟩
    · exact ⟨false, by simp [Term.endsFlag]⟩
    · simp at h
  | dec m' a =>
    simp only [MsgAimed, termKind, List.any_cons, List.any_nil, Bool.or_false, Bool.and_eq_true, beq_iff_eq] at h
    rcases h with ⟨_, h⟩ | ⟨rfl, h⟩
    · simp at h
    · simp only [Option.some.injEq] at h
      exact ⟨true, by simp [Term.endsFlag, h]⟩
  | cleanup o => simp [MsgAimed, termKind] at h

theorem msg_of_flag_none {t : Term} {now m : Nat} {l : Lease} (h : t.endsFlag now m l = none) : ¬ MsgAimed t m l := by
  intro hm
  obtain ⟨d, hd⟩ := flag_of_msg hm now
  rw [h] at hd; cases hd

theorem flag_of_aimed_term {t : Term} {now m : Nat} {l : Lease}
    (h : Aimed { terms := termKind t, sweep := isCleanup t } now m l) : ∃ d, t.endsFlag now m l = some d := by
  rcases h with h | h | ⟨hs, ht⟩
  · exact flag_of_msg (Or.inl h) now
  · exact flag_of_msg (Or.inr h) now
  · cases t with
    | cleanup o => exact ⟨false, by simp [Term.endsFlag, ht]⟩
    | rel _ => simp [isCleanup] at hs
    | dec _ _ => simp [isCleanup] at hs

theorem ends_what_it_should {s : State} (h : W s) (o : Op) {m : Nat} {l : Lease} (hl : lookup s.leases m = some l)
    (hk : (kindOf (.op o) (ranOf s (.op o))).shutdown = false)
    (ha : Aimed (kindOf (.op o) (ranOf s (.op o))) s.now m l) : ∃ d, Ended (step s o).1 m l d := by
  cases o with
  | disc m' => simp [Aimed, kindOf] at ha
  | req m' ip cid => simp [Aimed, kindOf] at ha
  | tick n => simp [Aimed, kindOf] at ha
  | fault w on => simp [Aimed, kindOf] at ha
  | shutdown => simp [kindOf, ranOf] at hk
  | term t =>
    obtain ⟨d, hd⟩ := flag_of_aimed_term (t := t) ha
    exact ⟨d, term_ends h.inv hl t hd⟩
  | gap ord inner =>
    have hr : ranOf s (.op (.gap ord inner)) = (gap s ord inner).2 := rfl
    rw [hr] at ha
    by_cases hran : (gap s ord inner).2 = true
    · rw [hran] at ha
      simp only [kindOf, if_true] at ha
      have hex : (expiredList s ord).isEmpty = false := by
        unfold gap at hran
        cases he : (expiredList s ord).isEmpty with
        | false => rfl
        | true => simp [he] at hran
      have hgap : (step s (.gap ord inner)).1 = applyList s.now (inner.run s) (expiredList s ord) := by
        simp only [step, gap, hex, Bool.false_eq_true, if_false]
      have hmsg_or : MsgAimed inner m l ∨ s.now > l.exp := by
        rcases ha with ha | ha | ⟨_, ht⟩
        · exact Or.inl (Or.inl ha)
        · exact Or.inl (Or.inr ha)
        · exact Or.inr ht
      cases hf : inner.endsFlag s.now m l with
      | some d =>
        rw [hgap]
        exact ⟨d, ended_applyList _ _ (inv_term h.inv inner) (term_ends h.inv hl inner hf)⟩
      | none =>
        rcases hmsg_or with hm | ht
        · exact absurd hm (msg_of_flag_none hf)
        · have := gap_ends h.inv hl ht ord inner
          rw [hf] at this
          exact ⟨false, this⟩
    · have hran' : (gap s ord inner).2 = false := by simpa using hran
      rw [hran'] at ha
      simp only [kindOf, Bool.false_eq_true, if_false] at ha
      rcases ha with ha | ha | ⟨_, ht⟩
      · simp at ha
      · simp at ha
      · exfalso
        have hm := mem_expiredList hl ht ord
        unfold gap at hran'
        cases he : (expiredList s ord).isEmpty with
        | false => simp [he] at hran'
        | true =>
          have : expiredList s ord = [] := by simpa using he
          rw [this] at hm; simp at hm
  | split a b =>
    simp only [kindOf] at ha
    have hab : (∃ d, a.endsFlag s.now m l = some d) ∨ (∃ d, b.endsFlag s.now m l = some d) := by
      rcases ha with ha | ha | ⟨hs, ht⟩
      · rw [List.any_append, Bool.or_eq_true] at ha
        rcases ha with ha | ha
        · exact Or.inl (flag_of_msg (Or.inl ha) _)
        · exact Or.inr (flag_of_msg (Or.inl ha) _)
      · rw [List.any_append, Bool.or_eq_true] at ha
        rcases ha with ha | ha
        · exact Or.inl (flag_of_msg (Or.inr ha) _)
        · exact Or.inr (flag_of_msg (Or.inr ha) _)
      · rw [Bool.or_eq_true] at hs
        rcases hs with hs | hs
        · cases a with
          | cleanup o => exact Or.inl ⟨false, by simp [Term.endsFlag, ht]⟩
          | rel _ => simp [isCleanup] at hs
          | dec _ _ => simp [isCleanup] at hs
        · cases b with
          | cleanup o => exact Or.inr ⟨false, by simp [Term.endsFlag, ht]⟩
          | rel _ => simp [isCleanup] at hs
          | dec _ _ => simp [isCleanup] at hs
    cases hfa : a.endsFlag s.now m l with
    | some d => exact ⟨d, split_ends h.inv hl a b (Or.inl hfa)⟩
    | none =>
      rcases hab with ⟨d, hd⟩ | ⟨d, hd⟩
      · rw [hfa] at hd; cases hd
      · exact ⟨d, split_ends h.inv hl a b (Or.inr ⟨hfa, hd⟩)⟩

/-! ### … and nothing else: a termination the monitor expects to end nothing is the identity -/

theorem msg_of_flag {t : Term} {now m : Nat} {l : Lease} {d : Bool} (h : t.endsFlag now m l = some d) :
    MsgAimed t m l ∨ (isCleanup t = true ∧ now > l.exp) := by
  cases t with
  | rel m' =>
    simp only [Term.endsFlag] at h
    split at h
    · rename_i e; subst e; exact Or.inl (Or.inl (by simp [termKind]))
    · cases h
  | dec m' a =>
    simp only [Term.endsFlag] at h
    split at h
    · rename_i e; obtain ⟨rfl, rfl⟩ := e; exact Or.inl (Or.inr (by simp [termKind]))
    · cases h
  | cleanup o =>
    simp only [Term.endsFlag] at h
    split at h
    · rename_i ht; exact Or.inr ⟨rfl, ht⟩
    · cases h

theorem term_noop {s : State} (t : Term) (h : ∀ m l, lookup s.leases m = some l → t.endsFlag s.now m l = none) :
    t.run s = s := by
  cases t with
  | rel m' =>
    show release s m' = s
    cases hl : lookup s.leases m' with
    | none => exact release_no_lease hl
    | some l => have := h m' l hl; simp [Term.endsFlag] at this
  | dec m' a =>
    show decline s m' a = s
    cases hl : lookup s.leases m' with
    | none => exact decline_no_lease hl a
    | some l =>
      have := h m' l hl
      simp only [Term.endsFlag, true_and] at this
      rw [decline_eq, hl]
      simp only
      split
      · rename_i e; simp [e] at this
      · rfl
  | cleanup o =>
    apply cleanup_nothing_expired
    intro m l hl ht
    have := h m l hl
    simp [Term.endsFlag, ht] at this

theorem split_noop {s : State} (a b : Term) (ha : ∀ m l, lookup s.leases m = some l → a.endsFlag s.now m l = none)
    (hb : ∀ m l, lookup s.leases m = some l → b.endsFlag s.now m l = none) : split s a b = s := by
  have hbs := term_noop b hb
  cases a with
  | rel m' =>
    simp only [split, takeRelease]
    cases hl : lookup s.leases m' with
    | none => exact hbs
    | some l => have := ha m' l hl; simp [Term.endsFlag] at this
  | dec m' ip =>
    simp only [split, takeDecline]
    cases hl : lookup s.leases m' with
    | none => exact hbs
    | some l =>
      have := ha m' l hl
      simp only [Term.endsFlag, true_and] at this
      by_cases e : l.ip = ip
      · simp [e] at this
      · simp only [e, if_false]; exact hbs
  | cleanup o =>
    simp only [split]
    have : cleanup s o = s := term_noop (.cleanup o) ha
    rw [this]; exact hbs

theorem noop_when_nothing_aimed {s : State} (o : Op)
    (hk : (kindOf (.op o) (ranOf s (.op o))).isTermination = true)
    (hn : ∀ m l, lookup s.leases m = some l → ¬ Aimed (kindOf (.op o) (ranOf s (.op o))) s.now m l) :
    (step s o).1 = s := by
  cases o with
  | disc m' => simp [kindOf, Kind.isTermination] at hk
  | req m' ip cid => simp [kindOf, Kind.isTermination] at hk
  | tick n => simp [kindOf, Kind.isTermination] at hk
  | fault w on => simp [kindOf, Kind.isTermination] at hk
  | shutdown => rfl
  | term t =>
    apply term_noop t
    intro m l hl
    cases hf : t.endsFlag s.now m l with
    | none => rfl
    | some d =>
      exfalso
      apply hn m l hl
      rcases msg_of_flag hf with (h | h) | ⟨h1, h2⟩
      · exact Or.inl h
      · exact Or.inr (Or.inl h)
      · exact Or.inr (Or.inr ⟨h1, h2⟩)
  | gap ord inner =>
    have hr : ranOf s (.op (.gap ord inner)) = (gap s ord inner).2 := rfl
    rw [hr] at hn
    cases he : (expiredList s ord).isEmpty with
    | true => simp [step, gap, he]
    | false =>
      exfalso
      have hran : (gap s ord inner).2 = true := by simp [gap, he]
      rw [hran] at hn
      simp only [kindOf, if_true] at hn
      -- something has expired, and the monitor expects it to be ended
      obtain ⟨m, hm⟩ : ∃ m, m ∈ expiredList s ord := by
        cases hx : expiredList s ord with
        | nil => simp [hx] at he
        | cons a r => exact ⟨a, by simp⟩
      unfold expiredList at hm
      rw [List.mem_filter] at hm
      obtain ⟨_, hm⟩ := hm
      cases hl : lookup s.leases m with
      | none => simp [hl] at hm
      | some l =>
        simp only [hl, decide_eq_true_eq] at hm
        exact hn m l hl (Or.inr (Or.inr ⟨rfl, hm⟩))
  | split a b =>
    simp only [kindOf] at hn
    apply split_noop
    · intro m l hl
      cases hf : a.endsFlag s.now m l with
      | none => rfl
      | some d =>
        exfalso
        apply hn m l hl
        rcases msg_of_flag hf with (h | h) | ⟨h1, h2⟩
        · exact Or.inl (by rw [List.any_append, h]; rfl)
        · exact Or.inr (Or.inl (by rw [List.any_append, h]; rfl))
        · exact Or.inr (Or.inr ⟨by rw [h1]; rfl, h2⟩)
    · intro m l hl
      cases hf : b.endsFlag s.now m l with
      | none => rfl
      | some d =>
        exfalso
        apply hn m l hl
        rcases msg_of_flag hf with (h | h) | ⟨h1, h2⟩
        · exact Or.inl (by rw [List.any_append, h, Bool.or_true])
        · exact Or.inr (Or.inl (by rw [List.any_append, h, Bool.or_true]))
        · exact Or.inr (Or.inr ⟨by rw [h1, Bool.or_true], h2⟩)

/-! ### one step of model and monitor -/

theorem kindOf_op (o : Op) (r : Bool) :
    (kindOf (.op o) r).established = none ∧ (kindOf (.op o) r).revived = [] ∧ (kindOf (.op o) r).ro = [] := by
  cases o <;> simp only [kindOf] <;> (try split) <;> simp

theorem kind_rev (k : Kind) (h : k.revived = []) (h2 : k.ro = []) : ({ k with revived := [], ro := [] } : Kind) = k := by
  cases k; simp_all

theorem endChecks_shutdown (before after : Snap) (k : Kind) (hs : k.shutdown = true) (e : Nat × Nat × String) :
    ∀ v ∈ endChecks before after k e, v.2.1 = KFshutdown := by
  obtain ⟨m, ip, path⟩ := e
  intro v hv
  unfold endChecks at hv
  simp only [List.mem_append, List.mem_flatMap] at hv
  rcases hv with hv | ⟨⟨o, am, st, sp⟩, _, hv⟩
  · split at hv
    · simp only [List.mem_singleton] at hv; subst hv
      exact clFor_shutdown _ _ _ hs _ _ (by decide)
    · split at hv
      · simp only [List.mem_singleton] at hv; subst hv
        exact clFor_shutdown _ _ _ hs _ _ (by decide)
      · simp at hv
  · simp only at hv
    split at hv
    · split at hv
      · simp only [List.mem_singleton] at hv; subst hv
        exact clFor_shutdown _ _ _ hs _ _ (by decide)
      · simp at hv
    · simp only [List.mem_singleton] at hv; subst hv
      exact clFor_shutdown _ _ _ hs _ _ (by decide)

def Allowed (c : String) : Prop := c = KFoffer ∨ c = KFshutdown

theorem monitor_step_ok {s : State} (h : W s) (o : Op) :
    ∀ v ∈ monitor (obsOf s) (obsOf (step s o).1) (kindOf (.op o) (ranOf s (.op o))), Allowed v.2.1 := by
  have h' := W_step h o
  have hr : (step s o).1.radius = s.radius := step_radius s o
  obtain ⟨hest, _⟩ := kindOf_op o (ranOf s (.op o))
  generalize hk : kindOf (.op o) (ranOf s (.op o)) = k at hest
  intro v hv
  unfold monitor at hv
  simp only [List.mem_append] at hv
  rcases hv with (((((hv | hv) | hv) | hv) | hv) | hv) | hv
  · -- per ended session
    unfold vEnd at hv
    rw [List.mem_flatMap] at hv
    obtain ⟨e, he, hv⟩ := hv
    cases hs : k.shutdown with
    | true => exact Or.inr (endChecks_shutdown _ _ k hs e v hv)
    | false =>
      exfalso
      obtain ⟨m, ip, path⟩ := e
      obtain ⟨l, hl, rfl, ha⟩ := ended_sound h.nd hs hest he
      obtain ⟨d, hE⟩ := ends_what_it_should h o hl (by rw [hk]; exact hs) (by rw [hk]; exact ha)
      rw [endChecks_ok h h' hr _ rfl k hl hE path] at hv
      simp at hv
  · exact Or.inr (vOrphans_ok _ h' k v hv)
  · rw [vVlan_ok h'] at hv; simp at hv
  · rw [vAcct_ok _ h' k] at hv; simp at hv
  · -- second termination
    exfalso
    unfold vSecond at hv
    split at hv
    · rename_i hc
      simp only [Bool.and_eq_true] at hc
      obtain ⟨⟨⟨hterm, _⟩, hemp⟩, hne⟩ := hc
      have hsame : (step s o).1 = s := by
        cases hs : k.shutdown with
        | true =>
          cases o <;> first | rfl | (simp only [kindOf] at hk; (try split at hk) <;> (subst hk; simp at hs))
        | false =>
          apply noop_when_nothing_aimed o (by rw [hk]; exact hterm)
          intro m l hl ha
          rw [hk] at ha
          have := ended_complete hs hest hl ha
          simp only [List.isEmpty_iff] at hemp
          exact this hemp
      rw [hsame] at hne
      simp at hne
    · simp at hv
  · exact Or.inl (vOffer_ok _ _ k v hv)
  · rw [vSkew_ok] at hv; simp at hv

/-! ### whole histories -/

/-- on the model the circuit-id index holds nothing for a MAC without a lease: no REQUEST is answered from a stale entry -/
theorem hitOf_none {s : State} (h : W s) (o : Op) : hitOf (obsOf s) (.op o) = none := by
  have key : ∀ (m : Nat) (cid : Option Nat), (match cid with
      | some c => if ((obsOf s).leaseOf m).isNone && (obsOf s).idx.any (fun e => e.1 == (m, c)) then some m else none
      | none => none) = none := by
    intro m cid
    cases cid with
    | none => rfl
    | some c =>
      simp only
      rw [if_neg]
      intro hc
      simp only [Bool.and_eq_true, List.any_eq_true, beq_iff_eq] at hc
      obtain ⟨hno, ⟨k, a⟩, hmem, hk⟩ := hc
      simp only at hk
      subst hk
      have horph : (m, c) ∈ (obsOf s).orphanIdx false := by
        unfold Snap.orphanIdx
        rw [List.mem_filter]
        refine ⟨List.mem_map.mpr ⟨_, hmem, rfl⟩, ?_⟩
        simp only [Bool.false_or, Bool.not_eq_true']
        cases hh : (obsOf s).hasCid (m, c) with
        | false => rfl
        | true =>
          obtain ⟨l, hl, _⟩ := (obs_hasCid s m c).mp hh
          have : (lookup s.leases m).isSome = true := lookup_isSome_of_mem_keys (by
            simp only [keys, List.mem_map]; exact ⟨(m, l), hl, rfl⟩)
          rw [← obs_leaseOf_isSome] at this
          cases hx : (obsOf s).leaseOf m with
          | none => rw [hx] at this; cases this
          | some x => rw [hx] at hno; cases hno
      rw [(obs_no_orphans h).2.2.2.2.2] at horph
      simp at horph
  cases o with
  | req m ip cid => exact key m cid
  | _ => rfl

structure Rel (s : State) (mn : Mon) : Prop where
  prev : mn.prev = obsOf s
  rev : mn.revived = []
  ro : mn.ro = []

theorem Rel_init (radius : Bool) (lt : Nat) : Rel (init radius lt) (initMon radius lt) := ⟨rfl, rfl, rfl⟩

theorem runBoth_ok (ops : List Op) : ∀ {s : State} {mn : Mon}, W s → Rel s mn →
    ∀ v ∈ runBoth s mn (ops.map OpX.op), Allowed v.2.1 := by
  induction ops with
  | nil => intro s mn _ _ v hv; simp [runBoth] at hv
  | cons o rest ih =>
    intro s mn h hR v hv
    have hstep : (stepX s (.op o)).1 = (step s o).1 := (stepX_of_nil h.stale).1 o
    simp only [List.map_cons, runBoth, monitorCore, hR.prev, hR.rev, hR.ro, hitOf_none h o, hstep] at hv
    rw [List.mem_append] at hv
    rcases hv with hv | hv
    · rw [kind_rev _ (kindOf_op o _).2.1 (kindOf_op o _).2.2] at hv
      exact monitor_step_ok h o v hv
    · exact ih (W_step h o) ⟨rfl, by simp, rfl⟩ v hv

end Bng.DhcpTerm
