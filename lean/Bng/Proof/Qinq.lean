import Bng.Model.Qinq
/-
  Invariant of the qinq.Mapper model and its preservation by every operation.
-/
namespace Bng.Qinq
open Bng AMap

/-- the two maps are mutually inverse partial functions and only validated pairs are stored -/
structure Inv (st : State) : Prop where
  fwd : ∀ k p, AMap.lookup st.s2v k = some p → AMap.lookup st.v2s p = some k
  bwd : ∀ k p, AMap.lookup st.v2s p = some k → AMap.lookup st.s2v k = some p
  ok  : ∀ k p, AMap.lookup st.v2s p = some k → valid st.cfg p = true

theorem inv_init (c : Cfg) : Inv (init c) := by
  constructor <;> intro k p h <;> simp [init] at h

/-- the pair → subscriber map after `bind` -/
theorem bind_v2s (st : State) (p : Pair) (k : Nat) (q : Pair) :
    AMap.lookup (bind st p k).v2s q =
      if q = p then some k
      else if AMap.lookup st.s2v k = some q then none else AMap.lookup st.v2s q := by
  unfold bind
  simp only [lookup_insert]
  by_cases e : q = p
  · simp [e]
  · simp only [e, if_false]
    cases h : AMap.lookup st.s2v k with
    | none => simp
    | some old =>
      simp only [lookup_erase, Option.some.injEq]
      by_cases e2 : q = old
      · subst e2; simp
      · have : ¬ old = q := fun x => e2 x.symm
        simp [e2, this]

theorem bind_s2v (st : State) (p : Pair) (k k' : Nat) :
    AMap.lookup (bind st p k).s2v k' = if k' = k then some p else AMap.lookup st.s2v k' := by
  unfold bind
  simp only [lookup_insert]

theorem bind_cfg (st : State) (p : Pair) (k : Nat) : (bind st p k).cfg = st.cfg := rfl

theorem inv_bind {st : State} (hI : Inv st) {p : Pair} {k : Nat} (hv : valid st.cfg p = true)
    (hp : AMap.lookup st.v2s p = none ∨ AMap.lookup st.v2s p = some k) : Inv (bind st p k) := by
  constructor
  · intro k' q h
    rw [bind_s2v] at h
    rw [bind_v2s]
    by_cases e : k' = k
    · simp only [e, if_true, Option.some.injEq] at h; subst h; simp [e]
    · simp only [e, if_false] at h
      have hq := hI.fwd k' q h
      have hqp : q ≠ p := by
        intro x; subst x
        rcases hp with hp | hp <;> rw [hp] at hq
        · cases hq
        · simp at hq; exact e hq.symm
      simp only [hqp, if_false]
      by_cases e2 : AMap.lookup st.s2v k = some q
      · have := hI.fwd k q e2
        rw [hq] at this; simp at this; exact absurd this e
      · simp only [e2, if_false]; exact hq
  · intro k' q h
    rw [bind_v2s] at h
    rw [bind_s2v]
    by_cases e : q = p
    · simp only [e, if_true, Option.some.injEq] at h; subst h; simp [e]
    · simp only [e, if_false] at h
      by_cases e2 : AMap.lookup st.s2v k = some q
      · simp [e2] at h
      · simp only [e2, if_false] at h
        have hq := hI.bwd k' q h
        have : k' ≠ k := by intro x; subst x; exact e2 hq
        simp only [this, if_false]; exact hq
  · intro k' q h
    rw [bind_v2s] at h
    rw [bind_cfg]
    by_cases e : q = p
    · rw [e]; exact hv
    · simp only [e, if_false] at h
      by_cases e2 : AMap.lookup st.s2v k = some q
      · simp [e2] at h
      · simp only [e2, if_false] at h; exact hI.ok k' q h

theorem inv_register {st : State} (hI : Inv st) (p : Pair) (k : Nat) : Inv (register st p k).1 := by
  unfold register
  by_cases hv : valid st.cfg p = true
  · simp only [hv, Bool.not_true, Bool.false_eq_true, if_false]
    cases h : AMap.lookup st.v2s p with
    | none => exact inv_bind hI hv (Or.inl h)
    | some k' =>
      simp only
      by_cases e : k' ≠ k
      · rw [if_pos e]; exact hI
      · rw [if_neg e]
        have : k' = k := by simpa using e
        exact inv_bind hI hv (Or.inr (this ▸ h))
  · have : valid st.cfg p = false := by simpa using hv
    simp only [this, Bool.not_false, if_true]; exact hI

/-- removing a matched pair of entries keeps the invariant -/
theorem inv_erase_both {st : State} (hI : Inv st) {p : Pair} {k : Nat}
    (h1 : AMap.lookup st.v2s p = some k) (h2 : AMap.lookup st.s2v k = some p) :
    Inv { st with v2s := AMap.erase st.v2s p, s2v := AMap.erase st.s2v k } := by
  constructor
  · intro k' q h
    simp only [lookup_erase] at h ⊢
    by_cases e : k' = k
    · simp [e] at h
    · simp only [e, if_false] at h
      have hq := hI.fwd k' q h
      have : q ≠ p := by intro x; subst x; rw [h1] at hq; simp at hq; exact e hq.symm
      simp only [this, if_false]; exact hq
  · intro k' q h
    simp only [lookup_erase] at h ⊢
    by_cases e : q = p
    · simp [e] at h
    · simp only [e, if_false] at h
      have hq := hI.bwd k' q h
      have : k' ≠ k := by intro x; subst x; rw [h2] at hq; simp at hq; exact e hq.symm
      simp only [this, if_false]; exact hq
  · intro k' q h
    simp only [lookup_erase] at h
    by_cases e : q = p
    · simp [e] at h
    · simp only [e, if_false] at h; exact hI.ok k' q h

theorem inv_unregister {st : State} (hI : Inv st) (p : Pair) : Inv (unregister st p).1 := by
  unfold unregister
  cases h : AMap.lookup st.v2s p with
  | none => exact hI
  | some k => exact inv_erase_both hI h (hI.bwd k p h)

theorem inv_unregisterSub {st : State} (hI : Inv st) (k : Nat) : Inv (unregisterSub st k).1 := by
  unfold unregisterSub
  cases h : AMap.lookup st.s2v k with
  | none => exact hI
  | some p => exact inv_erase_both hI (hI.fwd k p h) h

theorem inv_step {st : State} (hI : Inv st) (op : Op) : Inv (step st op).1 := by
  cases op with
  | register p k => exact inv_register hI p k
  | unregister p => exact inv_unregister hI p
  | unregisterSub k => exact inv_unregisterSub hI k
  | getSubscriber p => exact hI
  | getVLAN k => exact hI
  | stats => exact hI

theorem inv_run {st : State} (hI : Inv st) (ops : List Op) : Inv (run st ops) := by
  induction ops generalizing st with
  | nil => exact hI
  | cons op rest ih => exact ih (inv_step hI op)

theorem step_cfg (st : State) (op : Op) : (step st op).1.cfg = st.cfg := by
  cases op with
  | register p k =>
    simp only [step, register]
    split
    · rfl
    · split
      · split <;> rfl
      · rfl
  | unregister p => simp only [step, unregister]; split <;> rfl
  | unregisterSub k => simp only [step, unregisterSub]; split <;> rfl
  | getSubscriber p => rfl
  | getVLAN k => rfl
  | stats => rfl

theorem run_cfg (st : State) (ops : List Op) : (run st ops).cfg = st.cfg := by
  induction ops generalizing st with
  | nil => rfl
  | cons op rest ih =>
    show (run (step st op).1 rest).cfg = st.cfg
    rw [ih, step_cfg]

end Bng.Qinq
