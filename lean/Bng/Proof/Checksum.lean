import Bng.Model.XdpDhcp
import Bng.Model.XdpDhcpSpec
/-
  The Internet-checksum lemma, proved once: storing the value `ip_checksum` computes (over the header with a
  zero checksum field, in host order, on a little-endian machine) into the checksum field makes the one's-complement
  sum of the header's BIG-endian 16-bit words equal 0xFFFF — the test a receiver applies.
-/
namespace Bng.Checksum
open Bng Bng.C Bng.XdpDhcp Bng.XdpDhcpSpec

theorem fold_s1 (S : Nat) (hS : S ≤ 589815) :
    let s1 := (S % 4294967296 % 65536 + S % 4294967296 / 65536) % 4294967296
    s1 + 65535 * (S / 65536) = S ∧ s1 ≤ 65543 := by
  intro s1
  have h0 : S % 4294967296 = S := Nat.mod_eq_of_lt (by omega)
  have : s1 = S % 65536 + S / 65536 := by
    show (S % 4294967296 % 65536 + S % 4294967296 / 65536) % 4294967296 = _
    rw [h0]; exact Nat.mod_eq_of_lt (by omega)
  omega

theorem fold_s2 (s1 : Nat) (h : s1 ≤ 65543) :
    let s2 := (s1 % 65536 + s1 / 65536) % 4294967296
    s2 + 65535 * (s1 / 65536) = s1 ∧ s2 ≤ 65535 ∧ (s1 > 0 → s2 > 0) := by
  intro s2
  have : s2 = s1 % 65536 + s1 / 65536 := Nat.mod_eq_of_lt (by omega)
  omega

theorem fold_multiple (m : Nat) (h1 : 1 ≤ m) (h2 : m ≤ 10) : fold16 (65535 * m) = 65535 := by
  simp only [fold16]
  omega

/-- arithmetic core: `a` = sum of the even (first) bytes of the nine other words, `b` = sum of their odd bytes -/
theorem fold_core (a b : Nat) (ha : a ≤ 2295) (hb : b ≤ 2295) :
    fold16 (256 * a + b + 256 * (foldCsum (a + 256 * b) % 256) + foldCsum (a + 256 * b) / 256) = 65535 := by
  have h1 := fold_s1 (a + 256 * b) (by omega)
  simp only [] at h1
  generalize hs1 : ((a + 256 * b) % 4294967296 % 65536 + (a + 256 * b) % 4294967296 / 65536) % 4294967296 = s1 at h1
  have h2 := fold_s2 s1 h1.2
  simp only [] at h2
  generalize hs2 : (s1 % 65536 + s1 / 65536) % 4294967296 = s2 at h2
  have hc : foldCsum (a + 256 * b) = 65535 - s2 := by
    simp only [foldCsum, hs1, hs2]
    omega
  rw [hc]
  generalize hq0 : (a + 256 * b) / 65536 = q0 at h1
  generalize hq1 : s1 / 65536 = q1 at h2
  have key : 256 * a + b + 256 * ((65535 - s2) % 256) + (65535 - s2) / 256
      = 65535 * (256 * (q0 + q1 + 1) - b - (65535 - s2) / 256) := by omega
  rw [key]
  apply fold_multiple <;> omega

/-- a list of twenty bytes, spelled out -/
theorem list20 (h : List UInt8) (hl : h.length = 20) :
    ∃ b0 b1 b2 b3 b4 b5 b6 b7 b8 b9 b10 b11 b12 b13 b14 b15 b16 b17 b18 b19,
      h = [b0, b1, b2, b3, b4, b5, b6, b7, b8, b9, b10, b11, b12, b13, b14, b15, b16, b17, b18, b19] := by
  match h, hl with
  | [b0, b1, b2, b3, b4, b5, b6, b7, b8, b9, b10, b11, b12, b13, b14, b15, b16, b17, b18, b19], _ =>
    exact ⟨b0, b1, b2, b3, b4, b5, b6, b7, b8, b9, b10, b11, b12, b13, b14, b15, b16, b17, b18, b19, rfl⟩

/-- **Checksum lemma.**  For a 20-byte header whose checksum field (bytes 10, 11) is zero, writing
    `foldCsum (sumWords h)` into that field as a little-endian `__u16` yields a header that passes the
    receiver's test. -/
theorem csum_correct (h : List UInt8) (hl : h.length = 20) (hz : bytesAt h 10 2 = [0, 0]) :
    headerSumOk (splice h 10 (leBytes 2 (UInt16.ofNat (foldCsum (sumWords h))).toNat)) = true := by
  obtain ⟨b0, b1, b2, b3, b4, b5, b6, b7, b8, b9, b10, b11, b12, b13, b14, b15, b16, b17, b18, b19, rfl⟩ := list20 h hl
  simp only [bytesAt, List.drop, List.take, List.cons.injEq, and_true] at hz
  obtain ⟨rfl, rfl⟩ := hz
  have e1 : ∀ c : Nat, splice [b0, b1, b2, b3, b4, b5, b6, b7, b8, b9, 0, 0, b12, b13, b14, b15, b16, b17, b18, b19] 10
      (leBytes 2 c) = [b0, b1, b2, b3, b4, b5, b6, b7, b8, b9, UInt8.ofNat (c % 256), UInt8.ofNat (c / 256 % 256),
        b12, b13, b14, b15, b16, b17, b18, b19] := by
    intro c
    rw [splice_eq (by simp)]
    simp [leBytes]
  rw [e1]
  have hb : ∀ x : UInt8, x.toNat ≤ 255 := fun x => by have := x.toNat_lt; omega
  have := hb b0; have := hb b1; have := hb b2; have := hb b3; have := hb b4; have := hb b5; have := hb b6
  have := hb b7; have := hb b8; have := hb b9; have := hb b12; have := hb b13; have := hb b14; have := hb b15
  have := hb b16; have := hb b17; have := hb b18; have := hb b19
  have core := fold_core (b0.toNat + b2.toNat + b4.toNat + b6.toNat + b8.toNat + b12.toNat + b14.toNat + b16.toNat + b18.toNat)
    (b1.toNat + b3.toNat + b5.toNat + b7.toNat + b9.toNat + b13.toNat + b15.toNat + b17.toNat + b19.toNat)
    (by omega) (by omega)
  simp only [headerSumOk, sumBE, sumWords, UInt8.toNat_ofNat', UInt16.toNat_ofNat', beq_iff_eq]
  have ck : foldCsum (b0.toNat + 256 * b1.toNat + (b2.toNat + 256 * b3.toNat + (b4.toNat + 256 * b5.toNat +
      (b6.toNat + 256 * b7.toNat + (b8.toNat + 256 * b9.toNat + ((0 : UInt8).toNat + 256 * (0 : UInt8).toNat +
      (b12.toNat + 256 * b13.toNat + (b14.toNat + 256 * b15.toNat + (b16.toNat + 256 * b17.toNat +
      (b18.toNat + 256 * b19.toNat + 0)))))))))) =
      foldCsum (b0.toNat + b2.toNat + b4.toNat + b6.toNat + b8.toNat + b12.toNat + b14.toNat + b16.toNat + b18.toNat +
        256 * (b1.toNat + b3.toNat + b5.toNat + b7.toNat + b9.toNat + b13.toNat + b15.toNat + b17.toNat + b19.toNat)) := by
    congr 1
    simp
    omega
  rw [ck]
  have hcl : foldCsum (b0.toNat + b2.toNat + b4.toNat + b6.toNat + b8.toNat + b12.toNat + b14.toNat + b16.toNat + b18.toNat +
        256 * (b1.toNat + b3.toNat + b5.toNat + b7.toNat + b9.toNat + b13.toNat + b15.toNat + b17.toNat + b19.toNat)) < 65536 := by
    exact Nat.mod_lt _ (by decide)
  generalize foldCsum _ = c at core hcl ⊢
  refine Eq.trans (congrArg fold16 ?_) core
  omega
