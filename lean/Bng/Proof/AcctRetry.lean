import Bng.Proof.AcctDrain
/-
  The retry budget (C08, "every pattern of unreachability that stays within the configured retry budget"):
    * a record the processor transmits is delivered by the first transmission the server acknowledges,
      in the same process lifetime (no crash/restart needed);
    * every transmission the client sees fail adds exactly one to the record's retry count;
    * a record is abandoned exactly by its maxRetries-th failed transmission, never earlier.
-/
namespace Bng.Acct
open Bng AMap

/-- every retry count is below the budget -/
structure RB (σ : State) : Prop where
  pend : ∀ p ∈ σ.vol.pending, p.retries < σ.cfg.maxRetries
  pfile : ∀ ps, σ.dur.pfile = some ps → ∀ p ∈ ps, p.retries < σ.cfg.maxRetries

theorem rb_same {σ σ' : State} (h : RB σ) (hc : σ'.cfg = σ.cfg) (hp : σ'.vol.pending = σ.vol.pending)
    (hf : σ'.dur.pfile = σ.dur.pfile) : RB σ' :=
  ⟨by rw [hc, hp]; exact h.pend, by rw [hc, hf]; exact h.pfile⟩

theorem rb_accept {σ : State} (h : RB σ) (r : Rec) (b : Bool) : RB (accept σ r b) := rb_same h rfl rfl rfl
theorem rb_setPc {σ : State} (h : RB σ) (pc : Option Frame) : RB (setPc σ pc) := rb_same h rfl rfl rfl
theorem rb_setPpc {σ : State} (h : RB σ) (pc : Option Frame) : RB (setPpc σ pc) := rb_same h rfl rfl rfl

theorem rb_enqueue {σ : State} (h : RB σ) (hm : 1 ≤ σ.cfg.maxRetries) (r : Rec) (v : Bool) : RB (enqueue σ r v) := by
  refine ⟨?_, h.pfile⟩
  intro p hp
  simp only [enqueue, List.mem_cons] at hp
  rcases hp with e | e
  · subst e; exact hm
  · exact h.pend p e

theorem rb_send {σ : State} (h : RB σ) (hm : 1 ≤ σ.cfg.maxRetries) (r : Rec) (a : Ans) (v : Bool) :
    RB (send σ r a v) := by
  unfold send; split
  · exact rb_accept h r true
  · exact rb_enqueue h hm r v
  · exact rb_enqueue (rb_accept h r false) hm r v

theorem cfg_tick (σ : State) (a : Ans) : (tick σ a).cfg = σ.cfg := by
  unfold tick
  split
  · rfl
  · unfold tickStartSend send; repeat' (first | rfl | split)
  · unfold tickStartPersist persistSession; repeat' (first | rfl | split)
  · unfold tickStopPersist persistSession; repeat' (first | rfl | split)
  · unfold tickStopSend send; repeat' (first | rfl | split)
  · rfl
  · unfold tickStopRemove; repeat' (first | rfl | split)
  · rfl
  · rfl
  · rfl
  · unfold tickDrainSend; repeat' (first | rfl | split)
  · rfl
  · unfold tickPersistPending; repeat' (first | rfl | split)
  · unfold tickRecSend send; repeat' (first | rfl | split)
  · rfl
  · unfold tickRecLoad
    split
    · rfl
    · exact (loadPending_spec _ _ _).cfg
  · rfl

theorem rb_tick {σ : State} (h : RB σ) (hm : 1 ≤ σ.cfg.maxRetries) (a : Ans) : RB (tick σ a) := by
  unfold tick
  split
  · exact h
  · unfold tickStartSend; split
    · exact rb_setPc h _
    · exact rb_setPc (rb_send h hm _ a false) _
  · unfold tickStartPersist persistSession
    split
    · exact rb_setPc h _
    · split
      · exact rb_same h rfl rfl rfl
      · exact rb_same h rfl rfl rfl
  · unfold tickStopPersist persistSession; split <;> exact rb_same h rfl rfl rfl
  · unfold tickStopSend; split
    · exact rb_setPc h _
    · exact rb_setPc (rb_send h hm _ a false) _
  · exact rb_same h rfl rfl rfl
  · unfold tickStopRemove; split <;> exact rb_same h rfl rfl rfl
  · exact h
  · exact h
  · exact h
  · unfold tickDrainSend
    split
    · exact rb_setPc h _
    · dsimp only
      split
      · exact rb_setPc (rb_accept (σ := noteOrd σ _) (rb_same h rfl rfl rfl) _ true) _
      · exact rb_setPc (rb_enqueue (σ := noteOrd σ _) (rb_same h rfl rfl rfl) hm _ false) _
      · exact rb_setPc (rb_enqueue (rb_accept (σ := noteOrd σ _) (rb_same h rfl rfl rfl) _ false) hm _ false) _
  · exact rb_same h rfl rfl rfl
  · unfold tickPersistPending
    split
    · exact h
    · refine ⟨by simp, ?_⟩
      intro ps hps p hp
      dsimp only at hps
      split at hps
      · exact h.pfile ps hps p hp
      · simp only [Option.some.injEq] at hps; subst hps; exact h.pend p hp
  · unfold tickRecSend; split
    · exact rb_setPc h _
    · exact rb_setPc (rb_send h hm _ a true) _
  · exact rb_same h rfl rfl rfl
  · rename_i recd order _
    unfold tickRecLoad
    split
    · exact rb_setPc h _
    · rename_i ps hps
      apply rb_setPc
      have sp := loadPending_spec σ recd (recOfIds ps (normalize order (ps.map (·.id))))
      refine ⟨?_, ?_⟩
      · intro p hp
        rw [sp.cfg]
        rcases sp.pending p hp with e | ⟨q, hq, e, _⟩
        · exact h.pend p e
        · subst e; exact h.pfile ps hps q (mem_recOfIds hq)
      · rw [sp.cfg, sp.dur]; exact h.pfile
  · exact ⟨h.pend, by simp [tickRecPendRemove, setPc]⟩

theorem rb_procFail {σ : State} (h : RB σ) (p : PRec) (id : Nat) (rest : List Nat) : RB (procFail σ p id rest) := by
  unfold procFail
  split
  · refine ⟨?_, h.pfile⟩
    intro q hq
    exact h.pend q (mem_eraseP hq)
  · rename_i hlt
    refine ⟨?_, h.pfile⟩
    intro q hq
    simp only [setPpc, List.mem_map] at hq
    obtain ⟨q0, hq0, e⟩ := hq
    split at e
    · rename_i hid
      subst e
      show p.retries + 1 < σ.cfg.maxRetries
      omega
    · subst e; exact h.pend q0 hq0


theorem cfg_ptick (σ : State) (a : Ans) : (ptick σ a).cfg = σ.cfg :=
  ptick_ghost State.cfg (fun _ _ => rfl) (fun _ _ => rfl) (fun _ _ _ => rfl) (fun _ _ => rfl) (fun _ _ => rfl)
    (fun _ _ _ => rfl) σ a

theorem rb_ptick {σ : State} (h : RB σ) (a : Ans) : RB (ptick σ a) := by
  unfold ptick
  split
  · rename_i id rest _
    unfold tickProcSend
    split
    · exact rb_setPpc h _
    · rename_i p hp
      have h0 : RB (notePOrd σ id) := rb_same h rfl rfl rfl
      dsimp only
      split
      · have h1 : RB { (accept (notePOrd σ id) p.req true) with vol := { (accept (notePOrd σ id) p.req true).vol with
            pending := eraseP (accept (notePOrd σ id) p.req true).vol.pending id } } :=
          ⟨fun q hq => h0.pend q (mem_eraseP hq), h0.pfile⟩
        split
        · exact rb_setPpc h1 _
        · exact rb_setPpc h1 _
      · exact rb_procFail h0 p id rest
      · exact rb_procFail (rb_accept h0 p.req false) p id rest
  · exact rb_same h rfl rfl rfl
  · exact h

theorem cfg_itick (σ : State) (a : Ans) : (itick σ a).cfg = σ.cfg :=
  itick_ghost State.cfg (fun _ _ => rfl) (fun _ _ _ => rfl) (fun _ _ _ => rfl) (fun _ _ => rfl) σ a

theorem rb_itick {σ : State} (h : RB σ) (hm : 1 ≤ σ.cfg.maxRetries) (a : Ans) : RB (itick σ a) := by
  unfold itick
  split
  · rename_i s ident i o _
    have h1 := fun b => rb_accept h { kind := .interim, sid := s, ident := ident, cause := 0, inOct := i, outOct := o } b
    unfold tickIntSend
    dsimp only
    split
    · split
      · exact rb_same (h1 true) rfl rfl rfl
      · exact rb_same (h1 true) rfl rfl rfl
    · exact rb_same (rb_enqueue h hm { kind := .interim, sid := s, ident := ident, cause := 0, inOct := i, outOct := o } false) rfl rfl rfl
    · exact rb_same (rb_enqueue (h1 false) hm { kind := .interim, sid := s, ident := ident, cause := 0, inOct := i, outOct := o } false) rfl rfl rfl
  · exact h

theorem cfg_step (σ : State) (op : Op) : (step σ op).cfg = σ.cfg := by
  by_cases ht : ∃ a, op = .tick a
  · obtain ⟨a, e⟩ := ht; subst e; exact cfg_tick σ a
  · by_cases hp : ∃ a, op = .ptick a
    · obtain ⟨a, e⟩ := hp; subst e; exact cfg_ptick σ a
    · by_cases hi : ∃ a, op = .itick a
      · obtain ⟨a, e⟩ := hi; subst e; exact cfg_itick σ a
      · exact step_ghost_simple State.cfg (fun _ _ => rfl) (fun _ _ => rfl) (fun _ _ => rfl) (fun _ _ => rfl) (fun _ _ => rfl)
          (fun _ _ => rfl) (fun _ _ => rfl) (fun _ _ => rfl) (fun _ _ => rfl) (fun _ _ _ => rfl)
          (fun _ _ => rfl) (fun _ => rfl) (fun _ _ => rfl) (fun _ _ _ => rfl) σ op
          (fun a e => ht ⟨a, e⟩) (fun a e => hp ⟨a, e⟩) (fun a e => hi ⟨a, e⟩)

theorem rb_step {σ : State} (h : RB σ) (hm : 1 ≤ σ.cfg.maxRetries) (op : Op) : RB (step σ op) := by
  by_cases ht : ∃ a, op = .tick a
  · obtain ⟨a, e⟩ := ht; subst e; exact rb_tick h hm a
  · by_cases hp : ∃ a, op = .ptick a
    · obtain ⟨a, e⟩ := hp; subst e; exact rb_ptick h a
    · by_cases hi : ∃ a, op = .itick a
      · obtain ⟨a, e⟩ := hi; subst e; exact rb_itick h hm a
      -- calls, crash, restart: the retry map is unchanged or emptied, pending.json unchanged
      have hc := cfg_step σ op
      have hf : (step σ op).dur.pfile = σ.dur.pfile :=
        step_ghost_simple (fun σ => σ.dur.pfile) (fun _ _ => rfl) (fun _ _ => rfl) (fun _ _ => rfl) (fun _ _ => rfl) (fun _ _ => rfl)
          (fun _ _ => rfl) (fun _ _ => rfl) (fun _ _ => rfl) (fun _ _ => rfl) (fun _ _ _ => rfl)
          (fun _ _ => rfl) (fun _ => rfl) (fun _ _ => rfl) (fun _ _ _ => rfl) σ op
          (fun a e => ht ⟨a, e⟩) (fun a e => hp ⟨a, e⟩) (fun a e => hi ⟨a, e⟩)
      have hpd : ∀ p ∈ (step σ op).vol.pending, p ∈ σ.vol.pending := by
        cases op with
        | tick a => exact absurd ⟨a, rfl⟩ ht
        | ptick a => exact absurd ⟨a, rfl⟩ hp
        | itick a => exact absurd ⟨a, rfl⟩ hi
        | crash => intro p hp'; simp [step, crash] at hp'
        | crashTorn => intro p hp'; simp [step, crash] at hp'
        | ctr s i o => exact fun p hp' => hp'
        | restart order =>
          simp only [step]
          split
          · exact fun p hp' => hp'
          · unfold callRestart; dsimp only
            split <;> (intro p hp'; simp [setPc, begin] at hp')
        | start s ident =>
          simp only [step]
          split
          · exact fun p hp' => hp'
          · split
            · exact fun p hp' => hp'
            · unfold callStart
              split <;> exact fun p hp' => hp'
        | interim s =>
          simp only [step]
          split
          · exact fun p hp' => hp'
          · split
            · exact fun p hp' => hp'
            · unfold callInterim
              split
              · exact fun p hp' => hp'
              · split <;> exact fun p hp' => hp'
        | stop s cause =>
          simp only [step]
          split
          · exact fun p hp' => hp'
          · split
            · exact fun p hp' => hp'
            · unfold callStop
              split <;> exact fun p hp' => hp'
        | deq =>
          simp only [step]
          split
          · exact fun p hp' => hp'
          · split
            · exact fun p hp' => hp'
            · unfold callDeq
              split <;> exact fun p hp' => hp'
        | retry order =>
          simp only [step]
          split
          · exact fun p hp' => hp'
          · split <;> exact fun p hp' => hp'
        | shutdown order =>
          simp only [step]
          split
          · exact fun p hp' => hp'
          · split <;> exact fun p hp' => hp'
      exact ⟨fun p hp' => by rw [hc]; exact h.pend p (hpd p hp'), by rw [hc, hf]; exact h.pfile⟩

theorem rb_run (c : Cfg) (hm : 1 ≤ c.maxRetries) (ops : List Op) :
    RB (run (init c) ops) ∧ (run (init c) ops).cfg = c := by
  suffices H : ∀ σ : State, RB σ → σ.cfg = c → RB (run σ ops) ∧ (run σ ops).cfg = c from
    H (init c) ⟨by simp [init], by simp [init]⟩ rfl
  induction ops with
  | nil => exact fun σ h hc => ⟨h, hc⟩
  | cons op ops ih =>
    intro σ h hc
    exact ih (step σ op) (rb_step h (by rw [hc]; exact hm) op) (by rw [cfg_step, hc])

/-! ### what one transmission of the processor does to the record -/

/-- a failed transmission that is not the last one allowed: the record stays, its count is one higher -/
theorem proc_fail_counts {σ : State} {id : Nat} {rest : List Nat} {p : PRec} {a : Ans}
    (hpc : σ.vol.ppc = some (.procSend id rest)) (hp : findP σ.vol.pending id = some p) (ha : a ≠ .up)
    (hlt : p.retries + 1 < σ.cfg.maxRetries) :
    findP (ptick σ a).vol.pending id = some { p with retries := p.retries + 1 } ∧
    (ptick σ a).abandoned = σ.abandoned := by
  have hnot : ¬ (p.retries + 1 ≥ σ.cfg.maxRetries) := by omega
  have key : ∀ τ : State, τ.vol.pending = σ.vol.pending → τ.cfg = σ.cfg →
      findP (procFail τ p id rest).vol.pending id = some { p with retries := p.retries + 1 } ∧
      (procFail τ p id rest).abandoned = τ.abandoned := by
    intro τ e1 e2
    unfold procFail
    rw [e2, if_neg hnot]
    refine ⟨?_, rfl⟩
    simp only [setPpc]
    rw [e1]
    -- the first record with this id is p, and it is rewritten
    have : ∀ ps : List PRec, findP ps id = some p →
        findP (ps.map (fun q => if q.id == id then { q with retries := p.retries + 1 } else q)) id =
          some { p with retries := p.retries + 1 } := by
      intro ps
      induction ps with
      | nil => intro h; simp [findP] at h
      | cons q qs ih =>
        intro h
        rw [findP_cons] at h
        simp only [List.map_cons]
        rw [findP_cons]
        by_cases e : q.id = id
        · simp only [e, if_true] at h
          simp only [Option.some.injEq] at h
          subst h
          simp [e]
        · have e' : (q.id == id) = false := by simpa using e
          simp only [e, if_false] at h
          simp only [e', Bool.false_eq_true, if_false, e]
          exact ih h
    exact this _ hp
  unfold ptick
  rw [hpc]
  simp only [tickProcSend, hp]
  cases a with
  | up => exact absurd rfl ha
  | down => exact key (notePOrd σ id) rfl rfl
  | lost => exact key (accept (notePOrd σ id) p.req false) rfl rfl

/-- the failed transmission that exhausts the budget: the record is abandoned -/
theorem proc_fail_abandons {σ : State} {id : Nat} {rest : List Nat} {p : PRec} {a : Ans}
    (hpc : σ.vol.ppc = some (.procSend id rest)) (hp : findP σ.vol.pending id = some p) (ha : a ≠ .up)
    (hge : p.retries + 1 ≥ σ.cfg.maxRetries) :
    findP (ptick σ a).vol.pending id = none ∧
    (p.req.kind = .stop → p.req.sid ∈ (ptick σ a).abandoned) := by
  have key : ∀ τ : State, τ.vol.pending = σ.vol.pending → τ.cfg = σ.cfg →
      findP (procFail τ p id rest).vol.pending id = none ∧
      (p.req.kind = .stop → p.req.sid ∈ (procFail τ p id rest).abandoned) := by
    intro τ e1 e2
    unfold procFail
    rw [e2, if_pos hge]
    constructor
    · simp only [setPpc]
      unfold findP eraseP
      rw [List.find?_eq_none]
      intro q hq
      have := (List.mem_filter.mp hq).2
      simpa using this
    · intro hk
      simp [setPpc, hk]
  unfold ptick
  rw [hpc]
  simp only [tickProcSend, hp]
  cases a with
  | up => exact absurd rfl ha
  | down => exact key (notePOrd σ id) rfl rfl
  | lost => exact key (accept (notePOrd σ id) p.req false) rfl rfl

/-- `abandoned` grows only by a processor transmission the client saw fail, of a Stop whose retry count
    thereby reaches the budget -/
theorem abandoned_step (σ : State) (op : Op) (s : Nat) (h : s ∈ (step σ op).abandoned) :
    s ∈ σ.abandoned ∨
    ∃ a id rest p, op = .ptick a ∧ a ≠ .up ∧ σ.vol.ppc = some (.procSend id rest) ∧
      findP σ.vol.pending id = some p ∧ p.req.kind = .stop ∧ p.req.sid = s ∧
      p.retries + 1 ≥ σ.cfg.maxRetries := by
  by_cases hp : ∃ a, op = .ptick a
  · obtain ⟨a, e⟩ := hp
    subst e
    simp only [step] at h
    unfold ptick at h
    split at h
    · rename_i id rest hpc
      unfold tickProcSend at h
      split at h
      · exact Or.inl h
      · rename_i p hfp
        have key : ∀ τ : State, τ.abandoned = σ.abandoned → τ.cfg = σ.cfg →
            s ∈ (procFail τ p id rest).abandoned →
            s ∈ σ.abandoned ∨ (p.req.kind = .stop ∧ p.req.sid = s ∧ p.retries + 1 ≥ σ.cfg.maxRetries) := by
          intro τ e1 e2 hm
          unfold procFail at hm
          rw [e2] at hm
          split at hm
          · rename_i hge
            simp only [setPpc] at hm
            split at hm
            · rename_i hk
              simp only [List.mem_cons] at hm
              rcases hm with e | e
              · exact Or.inr ⟨by simpa using hk, e.symm, hge⟩
              · rw [e1] at e; exact Or.inl e
            · rw [e1] at hm; exact Or.inl hm
          · simp only [setPpc] at hm
            rw [e1] at hm; exact Or.inl hm
        dsimp only at h
        cases a with
        | up =>
          left
          dsimp only at h
          split at h <;> exact h
        | down =>
          rcases key (notePOrd σ id) rfl rfl h with h1 | ⟨h1, h2, h3⟩
          · exact Or.inl h1
          · exact Or.inr ⟨.down, id, rest, p, rfl, by simp, hpc, hfp, h1, h2, h3⟩
        | lost =>
          rcases key (accept (notePOrd σ id) p.req false) rfl rfl h with h1 | ⟨h1, h2, h3⟩
          · exact Or.inl h1
          · exact Or.inr ⟨.lost, id, rest, p, rfl, by simp, hpc, hfp, h1, h2, h3⟩
    · exact Or.inl h
    · exact Or.inl h
  · left
    by_cases ht : ∃ a, op = .tick a
    · obtain ⟨a, e⟩ := ht
      subst e
      simp only [step] at h
      unfold tick at h
      split at h
      · exact h
      · unfold tickStartSend send at h; revert h; repeat' (first | exact id | split)
      · unfold tickStartPersist persistSession at h; revert h; repeat' (first | exact id | split)
      · unfold tickStopPersist persistSession at h; revert h; repeat' (first | exact id | split)
      · unfold tickStopSend send at h; revert h; repeat' (first | exact id | split)
      · exact h
      · unfold tickStopRemove at h; revert h; repeat' (first | exact id | split)
      · exact h
      · exact h
      · exact h
      · unfold tickDrainSend at h; revert h; repeat' (first | exact id | split)
      · exact h
      · unfold tickPersistPending at h; revert h; repeat' (first | exact id | split)
      · unfold tickRecSend send at h; revert h; repeat' (first | exact id | split)
      · exact h
      · unfold tickRecLoad at h
        split at h
        · exact h
        · simp only [setPc] at h
          rw [(loadPending_spec _ _ _).abandoned] at h; exact h
      · exact h
    · by_cases hi : ∃ a, op = .itick a
      · obtain ⟨a, e⟩ := hi
        subst e
        simp only [step] at h
        rw [itick_ghost State.abandoned (fun _ _ => rfl) (fun _ _ _ => rfl) (fun _ _ _ => rfl) (fun _ _ => rfl)] at h
        exact h
      · have := step_ghost_simple State.abandoned (fun _ _ => rfl) (fun _ _ => rfl) (fun _ _ => rfl) (fun _ _ => rfl) (fun _ _ => rfl)
          (fun _ _ => rfl) (fun _ _ => rfl) (fun _ _ => rfl) (fun _ _ => rfl) (fun _ _ _ => rfl)
          (fun _ _ => rfl) (fun _ => rfl) (fun _ _ => rfl) (fun _ _ _ => rfl) σ op
          (fun a e => ht ⟨a, e⟩) (fun a e => hp ⟨a, e⟩) (fun a e => hi ⟨a, e⟩)
        rw [this] at h; exact h


/-- In the SAME process lifetime: one retry pass with the server up delivers every record of the retry map
    (whatever API call is parked in whatever frame, as long as the processor goroutine is alive). -/
theorem retry_delivers_core (σ : State) (hup : σ.up = true) (halive : procAlive σ.vol.pc = true)
    (hidle : σ.vol.ppc = none) (order : List Nat) :
    ∃ N, ∀ n, N ≤ n →
      (run σ (Op.retry order :: pticks n)).vol.ppc = none ∧
      (run σ (Op.retry order :: pticks n)).vol.pc = σ.vol.pc ∧
      ∀ id p, findP σ.vol.pending id = some p → p.req ∈ (run σ (Op.retry order :: pticks n)).log := by
  have hstep : step σ (.retry order) = callRetry σ order := by
    simp [step, hup, halive, hidle]
  have hpc : (callRetry σ order).vol.ppc =
      nextProc (callRetry σ order).vol.pending (normalize order (σ.vol.pending.map (·.id))) := rfl
  obtain ⟨k, _, pd⟩ := procLoop _ (callRetry σ order) hpc
  refine ⟨k, fun n hn => ?_⟩
  have e : run σ (Op.retry order :: pticks n) = run (callRetry σ order) (pticks k) := by
    rw [run, hstep, run_pticks_ge pd.pc hn]
  rw [e]
  refine ⟨pd.pc, by rw [pd.apc]; rfl, ?_⟩
  intro id p hp
  apply pd.acked id _ p hp
  apply mem_normalize
  have := findP_id hp
  rw [← this]
  exact List.mem_map.mpr ⟨p, findP_mem hp, rfl⟩

/-- the channel delivery: `deq` with the server up delivers the record at the head of the queue -/
theorem deq_delivers_core (σ : State) (hup : σ.up = true) (halive : procAlive σ.vol.pc = true)
    (hidle : σ.vol.ppc = none) (id : Nat) (q : List Nat) (hq : σ.vol.queue = id :: q) :
    ∃ N, ∀ n, N ≤ n →
      (run σ (Op.deq :: pticks n)).vol.ppc = none ∧
      ∀ p, findP σ.vol.pending id = some p → p.req ∈ (run σ (Op.deq :: pticks n)).log := by
  have hstep : step σ .deq = callDeq σ := by
    simp [step, hup, halive, hidle]
  have hcall : (callDeq σ).vol.ppc = nextProc (callDeq σ).vol.pending [id] ∧
      (callDeq σ).vol.pending = σ.vol.pending := by
    unfold callDeq; rw [hq]; exact ⟨rfl, rfl⟩
  obtain ⟨k, _, pd⟩ := procLoop [id] (callDeq σ) hcall.1
  refine ⟨k, fun n hn => ?_⟩
  have e : run σ (Op.deq :: pticks n) = run (callDeq σ) (pticks k) := by
    rw [run, hstep, run_pticks_ge pd.pc hn]
  rw [e]
  refine ⟨pd.pc, ?_⟩
  intro p hp
  exact pd.acked id (by simp) p (by rw [hcall.2]; exact hp)

end Bng.Acct
