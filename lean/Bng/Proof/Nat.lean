import Bng.Model.Nat
/-
  Helper lemmas for C10 (pkg/nat): block arithmetic without uint16 wrap, slot search, the reachable-state
  invariant `Inv` and its preservation by every step.
-/
namespace Bng.Cgnat
open Bng AMap

/-- the configurations the theorems speak about: a positive block size, a range of real ports, and the
    number of ports the code computed is not more than the range holds.  Every configuration that
    NewManager accepts satisfies it (`newManager_valid`). -/
def ValidCfg (c : Cfg) : Prop :=
  1 ≤ c.pps ∧ c.rangeEnd ≤ 65535 ∧ c.totalPorts ≤ (c.rangeEnd : Int) - (c.rangeStart : Int) + 1

theorem newManager_valid {pps rs re : Int} {logOn bulk : Bool} {c : Cfg}
    (h : newManager pps rs re logOn bulk = some c) : ValidCfg c := by
  unfold newManager at h
  simp only at h
  generalize (if pps = 0 then (1024 : Int) else pps) = p at h
  generalize (if rs = 0 then (1024 : Int) else rs) = r at h
  generalize (if re = 0 then (65535 : Int) else re) = e at h
  by_cases h1 : r < 1 ∨ e > 65535
  · simp [h1] at h
  · by_cases h2 : p < 1 ∨ p > 65535
    · simp [h1, h2] at h
    · simp only [h1, h2, if_false, Option.some.injEq] at h
      subst h
      unfold ValidCfg
      simp only
      omega

theorem mkCfg_valid (pps rs re : Nat) (logOn bulk : Bool) (h : (if re = 0 then 65535 else re) ≤ 65535) :
    ValidCfg (mkCfg pps rs re logOn bulk) := by
  unfold ValidCfg mkCfg
  simp only
  refine ⟨?_, h, Int.le_refl _⟩
  split <;> omega

/-- number of blocks per public address -/
def slotsOf (c : Cfg) : Nat := c.maxSubs.toNat

theorem slots_mul_le (c : Cfg) (hv : ValidCfg c) : slotsOf c * c.pps ≤ c.rangeEnd + 1 - c.rangeStart := by
  have hp := hv.1
  have ht := hv.2.2
  unfold slotsOf Cfg.maxSubs
  have hpos : (0 : Int) < (c.pps : Int) := by omega
  by_cases h : c.rangeStart ≤ c.rangeEnd + 1
  · have e : (c.rangeEnd : Int) - (c.rangeStart : Int) + 1 = ((c.rangeEnd + 1 - c.rangeStart : Nat) : Int) := by omega
    have hmono := Int.tdiv_le_tdiv hpos ht
    rw [e, Int.tdiv_eq_ediv_of_nonneg (Int.natCast_nonneg _)] at hmono
    have hdiv : ((c.rangeEnd + 1 - c.rangeStart : Nat) : Int) / (c.pps : Int)
        = (((c.rangeEnd + 1 - c.rangeStart) / c.pps : Nat) : Int) := by
      simp
    rw [hdiv] at hmono
    have hle : (c.totalPorts.tdiv (c.pps : Int)).toNat ≤ (c.rangeEnd + 1 - c.rangeStart) / c.pps :=
      Int.toNat_le.mpr hmono
    exact Nat.le_trans (Nat.mul_le_mul_right _ hle) (Nat.div_mul_le_self _ _)
  · have hneg : c.totalPorts < 0 := by omega
    have : c.totalPorts.tdiv (c.pps : Int) ≤ 0 := by
      have := Int.tdiv_le_tdiv hpos (Int.le_of_lt hneg)
      simpa using this
    have : (c.totalPorts.tdiv (c.pps : Int)).toNat = 0 := by omega
    rw [this]; omega

/-- a block of a valid slot ends inside the range -/
theorem slot_end_le (c : Cfg) (hv : ValidCfg c) {sl : Nat} (h : sl < slotsOf c) :
    c.rangeStart + (sl + 1) * c.pps ≤ c.rangeEnd + 1 := by
  have hp := hv.1
  have h1 := slots_mul_le c hv
  have h2 : (sl + 1) * c.pps ≤ slotsOf c * c.pps := Nat.mul_le_mul_right _ h
  have h3 : 0 < (sl + 1) * c.pps := Nat.mul_pos (by omega) (by omega)
  omega

theorem blockStart_toNat (c : Cfg) (hv : ValidCfg c) {sl : Nat} (h : sl < slotsOf c) :
    (blockStart c sl).toNat = c.rangeStart + sl * c.pps := by
  have h1 := slot_end_le c hv h
  have e : (sl + 1) * c.pps = sl * c.pps + c.pps := by rw [Nat.add_mul, Nat.one_mul]
  have := hv.1; have := hv.2.1
  unfold blockStart
  rw [UInt16.toNat_ofNat']
  apply Nat.mod_eq_of_lt
  omega

theorem blockEnd_toNat (c : Cfg) (hv : ValidCfg c) {sl : Nat} (h : sl < slotsOf c) :
    (blockEnd c (blockStart c sl)).toNat = c.rangeStart + sl * c.pps + c.pps - 1 := by
  have h1 := slot_end_le c hv h
  have e : (sl + 1) * c.pps = sl * c.pps + c.pps := by rw [Nat.add_mul, Nat.one_mul]
  have hs := blockStart_toNat c hv h
  have := hv.1; have := hv.2.1
  unfold blockEnd
  rw [UInt16.toNat_sub, UInt16.toNat_add, UInt16.toNat_ofNat', hs, UInt16.toNat_one]
  generalize sl * c.pps = x at *
  omega

/-! ## slot search -/

theorem scanSlot_some {used : List Nat} {s n x : Nat} (h : scanSlot used s n = some x) :
    s ≤ x ∧ x < s + n ∧ x ∉ used := by
  induction n generalizing s with
  | zero => simp [scanSlot] at h
  | succ n ih =>
    unfold scanSlot at h
    split at h
    · obtain ⟨a, b, c⟩ := ih h
      exact ⟨by omega, by omega, c⟩
    · rename_i hn
      simp at h; subst h
      exact ⟨Nat.le_refl _, by omega, hn⟩

theorem not_mem_usedSlots {allocs : AMap Nat Alloc} {idx sl : Nat} (h : sl ∉ usedSlots allocs idx) :
    ∀ p ∈ allocs, p.2.poolIndex = idx → p.2.slot ≠ sl := by
  intro p hp hi hs
  apply h
  unfold usedSlots
  simp only [List.mem_map, List.mem_filter]
  exact ⟨p, ⟨hp, by simp [hi]⟩, hs⟩

theorem selectPool_some {allocs : AMap Nat Alloc} {pool : List PoolEntry} {i j sl : Nat} {e : PoolEntry}
    (h : selectPool allocs pool i = some (j, sl, e)) :
    i ≤ j ∧ pool[j - i]? = some e ∧ sl < e.max.toNat ∧ (∀ p ∈ allocs, p.2.poolIndex = j → p.2.slot ≠ sl) := by
  induction pool generalizing i with
  | nil => simp [selectPool] at h
  | cons x rest ih =>
    unfold selectPool at h
    have tail : selectPool allocs rest (i + 1) = some (j, sl, e) →
        i ≤ j ∧ (x :: rest)[j - i]? = some e ∧ sl < e.max.toNat ∧
          (∀ p ∈ allocs, p.2.poolIndex = j → p.2.slot ≠ sl) := by
      intro h'
      obtain ⟨a, b, c, d⟩ := ih h'
      refine ⟨by omega, ?_, c, d⟩
      have : j - i = (j - (i + 1)) + 1 := by omega
      rw [this, List.getElem?_cons_succ]; exact b
    split at h
    · split at h
      · rename_i sl' hf
        simp only [Option.some.injEq, Prod.mk.injEq] at h
        obtain ⟨rfl, rfl, rfl⟩ := h
        unfold freeSlot at hf
        have hs := scanSlot_some hf
        refine ⟨Nat.le_refl _, by simp, by omega, not_mem_usedSlots hs.2.2⟩
      · exact tail h
    · exact tail h

/-! ## pool bookkeeping does not touch addresses or limits -/

theorem bumpSubs_map_ip (pool : List PoolEntry) (i : Nat) (d : Int) :
    (bumpSubs pool i d).map (·.ip) = pool.map (·.ip) := by
  unfold bumpSubs
  split
  · rename_i e he
    apply List.ext_getElem?
    intro n
    simp only [List.getElem?_map, List.getElem?_set]
    split
    · rename_i hin; subst hin; split <;> simp_all
    · rfl
  · rfl

theorem bumpSubs_map_max (pool : List PoolEntry) (i : Nat) (d : Int) :
    (bumpSubs pool i d).map (·.max) = pool.map (·.max) := by
  unfold bumpSubs
  split
  · rename_i e he
    apply List.ext_getElem?
    intro n
    simp only [List.getElem?_map, List.getElem?_set]
    split
    · rename_i hin; subst hin; split <;> simp_all
    · rfl
  · rfl

/-! ## AMap facts used below -/

theorem erase_eq_filter (m : AMap Nat Alloc) (k : Nat) :
    AMap.erase m k = m.filter (fun p => !(p.1 == k)) := by
  induction m with
  | nil => rfl
  | cons p rest ih =>
    obtain ⟨a, b⟩ := p
    rw [erase_cons]
    by_cases h : a = k
    · simp [h, ih]
    · simp [h, ih]

theorem insert_of_lookup_none {m : AMap Nat Alloc} {k : Nat} (h : AMap.lookup m k = none) (v : Alloc) :
    AMap.insert m k v = (k, v) :: m := by
  unfold AMap.insert
  rw [erase_eq_self_of_not_mem (lookup_eq_none_iff.mp h)]

/-! ## the invariant of reachable states -/

/-- what the log must say about a live allocation -/
def heldOf (p : Nat × Alloc) : Held :=
  { priv := p.2.priv, pub := p.2.pub, lo := p.2.portStart.toNat, hi := p.2.portEnd.toNat }

/-- a live allocation is well formed w.r.t. the configuration and the list of public addresses -/
structure WF (c : Cfg) (ips : List Nat) (p : Nat × Alloc) : Prop where
  priv : p.2.priv = p.1
  idx : ips[p.2.poolIndex]? = some p.2.pub
  slot : p.2.slot < slotsOf c
  ps : p.2.portStart = blockStart c p.2.slot
  pe : p.2.portEnd = blockEnd c p.2.portStart

/-- two live allocations have different subscribers and, on one pool entry, different slots -/
def Apart (p q : Nat × Alloc) : Prop :=
  p.1 ≠ q.1 ∧ (p.2.poolIndex = q.2.poolIndex → p.2.slot ≠ q.2.slot)

structure Inv (s : State) : Prop where
  wf : ∀ p ∈ s.allocs, WF s.cfg (s.pool.map (·.ip)) p
  pw : s.allocs.Pairwise Apart
  ips : (s.pool.map (·.ip)).Nodup
  mx : ∀ m ∈ s.pool.map (·.max), m = s.cfg.maxSubs
  lg : s.cfg.logOn = true → holders s.cfg s.log = s.allocs.map heldOf

theorem inv_init (c : Cfg) : Inv (init c) := by
  refine ⟨?_, ?_, ?_, ?_, ?_⟩ <;> simp [init, holders]

theorem WF.hi_eq {c : Cfg} {ips : List Nat} {p : Nat × Alloc} (hv : ValidCfg c) (h : WF c ips p) :
    p.2.portStart.toNat = c.rangeStart + p.2.slot * c.pps ∧
    p.2.portEnd.toNat = c.rangeStart + p.2.slot * c.pps + c.pps - 1 := by
  have a := blockStart_toNat c hv h.slot
  have b := blockEnd_toNat c hv h.slot
  rw [← h.ps] at a b
  rw [← h.pe] at b
  exact ⟨a, b⟩

theorem inv_addPublicIP {s : State} (h : Inv s) (ip : Nat) : Inv (addPublicIP s ip).1 := by
  unfold addPublicIP
  split
  · exact h
  · rename_i hany
    have hnot : ip ∉ s.pool.map (·.ip) := by
      intro hm
      apply hany
      simp only [List.mem_map] at hm
      obtain ⟨e, he, rfl⟩ := hm
      simp only [List.any_eq_true]
      exact ⟨e, he, by simp⟩
    refine ⟨?_, h.pw, ?_, ?_, h.lg⟩
    · intro p hp
      have w := h.wf p hp
      refine ⟨w.priv, ?_, w.slot, w.ps, w.pe⟩
      simp only [List.map_append, List.map_cons, List.map_nil]
      have hlt : p.2.poolIndex < (s.pool.map (·.ip)).length := by
        have := w.idx
        exact (List.getElem?_eq_some_iff.mp this).1
      rw [List.getElem?_append_left hlt]
      exact w.idx
    · simp only [List.map_append, List.map_cons, List.map_nil]
      rw [List.nodup_append]
      refine ⟨h.ips, by simp, ?_⟩
      intro a ha b hb
      simp at hb; subst hb
      intro e; subst e; exact hnot ha
    · intro m hm
      simp only [List.map_append, List.map_cons, List.map_nil, List.mem_append, List.mem_singleton] at hm
      rcases hm with hm | hm
      · exact h.mx m hm
      · exact hm

theorem alloc_eq (s : State) (k : Nat) :
    alloc s k = match AMap.lookup s.allocs k with
      | some a => (s, .alloc a)
      | none => allocCommit s k := by
  unfold alloc allocPre
  cases h : AMap.lookup s.allocs k <;> simp

theorem inv_allocCommit {s : State} (hv : ValidCfg s.cfg) (h : Inv s) (k : Nat) : Inv (allocCommit s k).1 := by
  unfold allocCommit
  split
  · exact h
  · rename_i hnone
    split
    · exact h
    · rename_i i sl e hsel
      obtain ⟨_, hget, hsl, hfresh⟩ := selectPool_some hsel
      simp only [Nat.sub_zero] at hget
      have hmax : e.max = s.cfg.maxSubs := by
        apply h.mx
        simp only [List.mem_map]
        exact ⟨e, List.mem_of_getElem? hget, rfl⟩
      have hslot : sl < slotsOf s.cfg := by unfold slotsOf; rw [← hmax]; exact hsl
      -- name the new allocation
      generalize hid : getOrCreateId s k = idr
      obtain ⟨id, nid, ids'⟩ := idr
      simp only
      generalize ha : ({ priv := k, pub := e.ip, portStart := blockStart s.cfg sl,
                         portEnd := blockEnd s.cfg (blockStart s.cfg sl), poolIndex := i, slot := sl,
                         subId := id } : Alloc) = a
      have hwf : WF s.cfg (s.pool.map (·.ip)) (k, a) := by
        subst ha
        refine ⟨rfl, ?_, hslot, rfl, rfl⟩
        simp [hget]
      rw [insert_of_lookup_none hnone]
      refine ⟨?_, ?_, ?_, ?_, ?_⟩
      · intro p hp
        simp only [bumpSubs_map_ip]
        rcases List.mem_cons.mp hp with hp | hp
        · subst hp; exact hwf
        · exact h.wf p hp
      · simp only
        rw [List.pairwise_cons]
        refine ⟨?_, h.pw⟩
        intro q hq
        constructor
        · intro hk
          have : q.1 ∈ AMap.keys s.allocs := by
            simp only [AMap.keys, List.mem_map]; exact ⟨q, hq, rfl⟩
          have hn := lookup_eq_none_iff.mp hnone
          simp only at hk
          rw [hk] at hn
          exact hn this
        · intro hidx hs
          have hi : q.2.poolIndex = i := by subst ha; simpa using hidx.symm
          have hsl' : q.2.slot = sl := by subst ha; simpa using hs.symm
          exact hfresh q hq hi hsl'
      · simp only [bumpSubs_map_ip]; exact h.ips
      · simp only [bumpSubs_map_max]; exact h.mx
      · intro hlog
        simp only at hlog
        simp only [List.map_cons]
        have hh := h.lg hlog
        have hhi := (WF.hi_eq hv hwf)
        unfold logAllocation
        simp only [hlog, Bool.not_true, Bool.false_eq_true, if_false]
        split
        · simp only [List.cons_append, List.nil_append, holders, applyEntry, hh]
          subst ha; rfl
        · simp only [List.cons_append, List.nil_append, holders, applyEntry, hh]
          congr 1
          unfold heldOf
          simp only at hhi
          subst ha
          simp only [Held.mk.injEq, true_and]
          simp only at hhi
          omega

theorem inv_dealloc {s : State} (h : Inv s) (k : Nat) : Inv (dealloc s k).1 := by
  unfold dealloc
  split
  · exact h
  · rename_i a hlk
    have hmem : (k, a) ∈ s.allocs := mem_of_lookup hlk
    have hsub : (AMap.erase s.allocs k).Sublist s.allocs := erase_sublist _ _
    refine ⟨?_, ?_, ?_, ?_, ?_⟩
    · intro p hp
      simp only [bumpSubs_map_ip]
      exact h.wf p (hsub.subset hp)
    · exact h.pw.sublist hsub
    · simp only [bumpSubs_map_ip]; exact h.ips
    · simp only [bumpSubs_map_max]; exact h.mx
    · intro hlog
      simp only at hlog
      have hh := h.lg hlog
      have hw := h.wf _ hmem
      -- which entries of the live table the release record removes: exactly those of subscriber k
      have key : ∀ p ∈ s.allocs,
          (!((heldOf p).priv == k && (heldOf p).pub == a.pub && (heldOf p).lo == a.portStart.toNat)) = !(p.1 == k) := by
        intro p hp
        have wp := h.wf p hp
        by_cases e : p.1 = k
        · have hpe : p = (k, a) := by
            apply Classical.byContradiction
            intro hne
            -- two different entries with the same key contradict pairwise distinctness
            rcases List.mem_iff_getElem.mp hp with ⟨n, hn, hnp⟩
            rcases List.mem_iff_getElem.mp hmem with ⟨m, hm, hmp⟩
            have hnm : n ≠ m := by
              intro e'; subst e'; rw [hnp] at hmp; exact hne hmp
            rcases Nat.lt_or_gt_of_ne hnm with hlt | hlt
            · have := (List.pairwise_iff_getElem.mp h.pw) n m hn hm hlt
              rw [hnp, hmp] at this
              exact this.1 e
            · have := (List.pairwise_iff_getElem.mp h.pw) m n hm hn hlt
              rw [hnp, hmp] at this
              exact this.1 e.symm
          subst hpe
          have hp' : a.priv = k := hw.priv
          simp [heldOf, hp']
        · have : ¬ p.2.priv = k := by rw [wp.priv]; exact e
          have h1 : (p.2.priv == k) = false := by simpa using this
          have h2 : (p.1 == k) = false := by simpa using e
          simp [heldOf, h1, h2]
      unfold logDeallocation
      simp only [hlog, Bool.not_true, Bool.false_eq_true, if_false]
      rw [erase_eq_filter]
      split
      · simp only [List.cons_append, List.nil_append, holders, applyEntry, hh]
        rw [List.filter_map]
        congr 1
        apply List.filter_congr
        intro p hp
        simpa using key p hp
      · simp only [List.cons_append, List.nil_append, holders, applyEntry, hh]
        rw [List.filter_map]
        congr 1
        apply List.filter_congr
        intro p hp
        simpa using key p hp

/-- a state that differs only in the subscriber-id bookkeeping is as good as the original -/
theorem inv_of_same {s s' : State} (h : Inv s) (hc : s'.cfg = s.cfg) (hp : s'.pool = s.pool)
    (ha : s'.allocs = s.allocs) (hl : s'.log = s.log) : Inv s' := by
  refine ⟨?_, ?_, ?_, ?_, ?_⟩
  · rw [ha, hc, hp]; exact h.wf
  · rw [ha]; exact h.pw
  · rw [hp]; exact h.ips
  · rw [hp, hc]; exact h.mx
  · rw [hc, hl, ha]; exact h.lg

/-- a failing kernel Put changes nothing but the subscriber-id bookkeeping -/
theorem commitFail_same (s : State) (k : Nat) :
    (commitFail s k).1.cfg = s.cfg ∧ (commitFail s k).1.pool = s.pool ∧
    (commitFail s k).1.allocs = s.allocs ∧ (commitFail s k).1.log = s.log := by
  unfold commitFail
  split
  · exact ⟨rfl, rfl, rfl, rfl⟩
  · split <;> exact ⟨rfl, rfl, rfl, rfl⟩

theorem allocFail_eq (s : State) (k : Nat) :
    allocFail s k = match AMap.lookup s.allocs k with
      | some a => (s, .alloc a)
      | none => commitFail s k := by
  unfold allocFail allocPre
  cases h : AMap.lookup s.allocs k <;> simp

theorem allocFail_same (s : State) (k : Nat) :
    (allocFail s k).1.cfg = s.cfg ∧ (allocFail s k).1.pool = s.pool ∧
    (allocFail s k).1.allocs = s.allocs ∧ (allocFail s k).1.log = s.log := by
  rw [allocFail_eq]; split
  · exact ⟨rfl, rfl, rfl, rfl⟩
  · exact commitFail_same s k

/-- a failing kernel Delete changes nothing at all -/
theorem deallocFail_state (s : State) (k : Nat) : (deallocFail s k).1 = s := by
  unfold deallocFail; split <;> rfl

theorem step_cfg (s : State) (op : Op) : (step s op).1.cfg = s.cfg := by
  cases op <;> simp only [step]
  · unfold addPublicIP; split <;> rfl
  · unfold allocPre; split <;> rfl
  · unfold allocCommit; split
    · rfl
    · split <;> rfl
  · rw [alloc_eq]; split
    · rfl
    · unfold allocCommit; split
      · rfl
      · split <;> rfl
  · unfold dealloc; split <;> rfl
  · exact (commitFail_same s _).1
  · exact (allocFail_same s _).1
  · rw [deallocFail_state]

theorem inv_step {s : State} (hv : ValidCfg s.cfg) (h : Inv s) (op : Op) : Inv (step s op).1 := by
  cases op <;> simp only [step]
  · exact inv_addPublicIP h _
  · unfold allocPre; split <;> exact h
  · exact inv_allocCommit hv h _
  · rw [alloc_eq]; split
    · exact h
    · exact inv_allocCommit hv h _
  · exact inv_dealloc h _
  · exact h
  · exact h
  · exact h
  · have e := commitFail_same s ‹Nat›; exact inv_of_same h e.1 e.2.1 e.2.2.1 e.2.2.2
  · have e := allocFail_same s ‹Nat›; exact inv_of_same h e.1 e.2.1 e.2.2.1 e.2.2.2
  · rw [deallocFail_state]; exact h
  · exact h

theorem run_cfg (s : State) (ops : List Op) : (run s ops).cfg = s.cfg := by
  induction ops generalizing s with
  | nil => rfl
  | cons op ops ih =>
    show (run (step s op).1 ops).cfg = s.cfg
    rw [ih, step_cfg]

theorem inv_run {s : State} (hv : ValidCfg s.cfg) (h : Inv s) (ops : List Op) : Inv (run s ops) := by
  induction ops generalizing s with
  | nil => exact h
  | cons op ops ih =>
    show Inv (run (step s op).1 ops)
    exact ih (by rw [step_cfg]; exact hv) (inv_step hv h op)

/-! ## consequences of the invariant used by the C10 theorems -/

theorem Apart.symm {p q : Nat × Alloc} (h : Apart p q) : Apart q p :=
  ⟨fun e => h.1 e.symm, fun e f => h.2 e.symm f.symm⟩

theorem pairwise_apart_mem {l : List (Nat × Alloc)} (h : l.Pairwise Apart) {p q : Nat × Alloc}
    (hp : p ∈ l) (hq : q ∈ l) (hne : p.1 ≠ q.1) : Apart p q := by
  induction l with
  | nil => simp at hp
  | cons x rest ih =>
    rw [List.pairwise_cons] at h
    rcases List.mem_cons.mp hp with hp' | hp' <;> rcases List.mem_cons.mp hq with hq' | hq'
    · rw [hp', hq'] at hne; exact absurd rfl hne
    · rw [hp']; exact h.1 q hq'
    · rw [hq']; exact (h.1 p hp').symm
    · exact ih h.2 hp' hq'

theorem nodupKeys_of_pairwise {l : AMap Nat Alloc} (h : l.Pairwise Apart) : NodupKeys l := by
  unfold NodupKeys keys List.Nodup
  rw [List.pairwise_map]
  exact h.imp (fun hab => hab.1)

/-- two well-formed allocations on the same public address in different slots are disjoint -/
theorem apart_disjoint {c : Cfg} {ips : List Nat} (hv : ValidCfg c) (hn : ips.Nodup) {p q : Nat × Alloc}
    (wp : WF c ips p) (wq : WF c ips q) (hap : Apart p q) (hpub : p.2.pub = q.2.pub) :
    p.2.portEnd.toNat < q.2.portStart.toNat ∨ q.2.portEnd.toNat < p.2.portStart.toNat := by
  have hidx : p.2.poolIndex = q.2.poolIndex := by
    have h1 := wp.idx
    have h2 := wq.idx
    rw [hpub] at h1
    have hlt : p.2.poolIndex < ips.length := (List.getElem?_eq_some_iff.mp h1).1
    exact (List.getElem?_inj hlt hn).mp (by rw [h1, h2])
  have hsl := hap.2 hidx
  obtain ⟨s1, e1⟩ := WF.hi_eq hv wp
  obtain ⟨s2, e2⟩ := WF.hi_eq hv wq
  have hp := hv.1
  rcases Nat.lt_or_gt_of_ne hsl with hlt | hlt
  · left
    have : (p.2.slot + 1) * c.pps ≤ q.2.slot * c.pps := Nat.mul_le_mul_right _ hlt
    rw [Nat.add_mul, Nat.one_mul] at this
    omega
  · right
    have : (q.2.slot + 1) * c.pps ≤ p.2.slot * c.pps := Nat.mul_le_mul_right _ hlt
    rw [Nat.add_mul, Nat.one_mul] at this
    omega

theorem disjoint_of_inv {s : State} (hv : ValidCfg s.cfg) (hI : Inv s) {k₁ k₂ : Nat} {a₁ a₂ : Alloc}
    (h₁ : AMap.lookup s.allocs k₁ = some a₁) (h₂ : AMap.lookup s.allocs k₂ = some a₂)
    (hk : k₁ ≠ k₂) (hpub : a₁.pub = a₂.pub) :
    a₁.portEnd.toNat < a₂.portStart.toNat ∨ a₂.portEnd.toNat < a₁.portStart.toNat := by
  have m1 := mem_of_lookup h₁
  have m2 := mem_of_lookup h₂
  exact apart_disjoint hv hI.ips (hI.wf _ m1) (hI.wf _ m2) (pairwise_apart_mem hI.pw m1 m2 hk) hpub

theorem lookup_step_stable (s : State) (op : Op) (k : Nat) (a : Alloc)
    (h : AMap.lookup s.allocs k = some a) (hop : op ≠ .dealloc k) :
    AMap.lookup (step s op).1.allocs k = some a := by
  have commit : ∀ k', AMap.lookup (allocCommit s k').1.allocs k = some a := by
    intro k'
    unfold allocCommit
    split
    · exact h
    · rename_i hnone
      split
      · exact h
      · have hne : k ≠ k' := by intro e; subst e; rw [h] at hnone; simp at hnone
        simp only
        rw [lookup_insert_ne _ _ hne]; exact h
  cases op <;> simp only [step]
  · unfold addPublicIP; split <;> exact h
  · unfold allocPre; split <;> exact h
  · exact commit _
  · rw [alloc_eq]; split
    · exact h
    · exact commit _
  · rename_i k'
    have hne : k ≠ k' := by intro e; subst e; exact hop rfl
    unfold dealloc; split
    · exact h
    · simp only; rw [lookup_erase_ne _ hne]; exact h
  · exact h
  · exact h
  · exact h
  · rw [(commitFail_same s _).2.2.1]; exact h
  · rw [(allocFail_same s _).2.2.1]; exact h
  · rw [deallocFail_state]; exact h
  · exact h

theorem filter_length_le_one {α : Type} {R : α → α → Prop} {P : α → Bool} {l : List α}
    (h : l.Pairwise R) (ex : ∀ x y, R x y → P x = true → P y = true → False) :
    (l.filter P).length ≤ 1 := by
  induction l with
  | nil => simp
  | cons x rest ih =>
    rw [List.pairwise_cons] at h
    by_cases hx : P x = true
    · have : rest.filter P = [] := by
        rw [List.filter_eq_nil_iff]
        intro y hy hPy
        exact ex x y (h.1 y hy) hx hPy
      simp [hx, this]
    · simp only [List.filter_cons, hx]
      exact ih h.2

/-- the query predicate of `whoHeld` -/
def covers (ip port : Nat) (x : Held) : Bool := x.pub == ip && decide (x.lo ≤ port) && decide (port ≤ x.hi)

theorem whoHeld_eq {s : State} (hI : Inv s) (hlog : s.cfg.logOn = true) (ip port : Nat) :
    whoHeld s.cfg s.log ip port = ((s.allocs.filter (fun p => covers ip port (heldOf p))).map heldOf).map (·.priv) := by
  unfold whoHeld
  rw [hI.lg hlog, List.filter_map]
  rfl

theorem whoHeld_length_le {s : State} (hv : ValidCfg s.cfg) (hI : Inv s) (hlog : s.cfg.logOn = true)
    (ip port : Nat) : (whoHeld s.cfg s.log ip port).length ≤ 1 := by
  rw [whoHeld_eq hI hlog]
  simp only [List.length_map]
  -- strengthen the pairwise relation with membership so that well-formedness is available
  have hpw : s.allocs.Pairwise (fun p q => Apart p q ∧ WF s.cfg (s.pool.map (·.ip)) p ∧ WF s.cfg (s.pool.map (·.ip)) q) := by
    have := hI.pw
    refine List.Pairwise.imp_of_mem ?_ this
    intro p q hp hq hap
    exact ⟨hap, hI.wf p hp, hI.wf q hq⟩
  apply filter_length_le_one hpw
  intro p q ⟨hap, wp, wq⟩ hp hq
  simp only [covers, heldOf, Bool.and_eq_true, beq_iff_eq] at hp hq
  obtain ⟨⟨p1, p2⟩, p3⟩ := hp
  obtain ⟨⟨q1, q2⟩, q3⟩ := hq
  have p2 := of_decide_eq_true p2
  have p3 := of_decide_eq_true p3
  have q2 := of_decide_eq_true q2
  have q3 := of_decide_eq_true q3
  have := apart_disjoint hv hI.ips wp wq hap (by rw [p1, q1])
  omega

theorem mem_whoHeld_iff {s : State} (hI : Inv s) (hlog : s.cfg.logOn = true) (ip port k : Nat) :
    k ∈ whoHeld s.cfg s.log ip port ↔
      ∃ a, AMap.lookup s.allocs k = some a ∧ a.pub = ip ∧ a.portStart.toNat ≤ port ∧ port ≤ a.portEnd.toNat := by
  rw [whoHeld_eq hI hlog]
  simp only [List.map_map, List.mem_map, List.mem_filter, Function.comp]
  constructor
  · rintro ⟨p, ⟨hp, hc⟩, hk⟩
    have w := hI.wf p hp
    simp only [covers, heldOf, Bool.and_eq_true, beq_iff_eq] at hc hk
    obtain ⟨⟨c1, c2⟩, c3⟩ := hc
    have hkey : p.1 = k := by rw [← w.priv]; exact hk
    refine ⟨p.2, ?_, c1, of_decide_eq_true c2, of_decide_eq_true c3⟩
    rw [← hkey]
    exact lookup_of_mem (nodupKeys_of_pairwise hI.pw) hp
  · rintro ⟨a, hl, hpub, hlo, hhi⟩
    have hm := mem_of_lookup hl
    have w := hI.wf _ hm
    refine ⟨(k, a), ⟨hm, ?_⟩, ?_⟩
    · simp [covers, heldOf, hpub, hlo, hhi]
    · simp only [heldOf]; exact w.priv

end Bng.Cgnat
