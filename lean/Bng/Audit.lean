import Lean
/-
  `#audit_module Bng.Spec.C01` prints, for every theorem declared in that module,
     THEOREM <name> AXIOMS <a1,a2,…|->
  and for every other declaration that is an axiom:  AXIOMDECL <name>.
  Used by /verif/check to count proof obligations and to audit the axioms each one depends on.
-/
open Lean Elab Command

elab "#audit_module " id:ident : command => do
  let env ← getEnv
  let modName := id.getId
  let some modIdx := env.getModuleIdx? modName
    | throwError "module {modName} not imported"
  let names := env.header.moduleData[modIdx.toNat]!.constNames
  for n in names do
    if n.isInternal then continue
    -- only declarations written in the source (auto-generated equation/splitter lemmas have no range)
    if (← findDeclarationRanges? n).isNone then continue
    match env.find? n with
    | some (.thmInfo _) =>
      let axs ← liftCoreM (collectAxioms n)
      let axs := axs.toList.map toString
      let s := if axs.isEmpty then "-" else ",".intercalate axs
      logInfo m!"THEOREM {n} AXIOMS {s}"
    | some (.axiomInfo _) => logInfo m!"AXIOMDECL {n}"
    | _ => pure ()
