import Bng.Go
/-
  MD5 (RFC 1321) in core Lean, UInt32 arithmetic.  Used only by the executable drivers (`bngdrv coa`,
  `bngdrv decoders`) to instantiate the hash parameter `H` of the CoA model; the theorems quantify over
  every `H`.  Validated against Go's crypto/md5 on every run of C15 (`md5 <hex>` trace lines and every
  response authenticator).
-/
namespace Bng.Md5
open Bng.Go

def sTable : Array UInt32 := #[
  7, 12, 17, 22, 7, 12, 17, 22, 7, 12, 17, 22, 7, 12, 17, 22,
  5, 9, 14, 20, 5, 9, 14, 20, 5, 9, 14, 20, 5, 9, 14, 20,
  4, 11, 16, 23, 4, 11, 16, 23, 4, 11, 16, 23, 4, 11, 16, 23,
  6, 10, 15, 21, 6, 10, 15, 21, 6, 10, 15, 21, 6, 10, 15, 21]

def kTable : Array UInt32 := #[
  0xd76aa478, 0xe8c7b756, 0x242070db, 0xc1bdceee, 0xf57c0faf, 0x4787c62a, 0xa8304613, 0xfd469501,
  0x698098d8, 0x8b44f7af, 0xffff5bb1, 0x895cd7be, 0x6b901122, 0xfd987193, 0xa679438e, 0x49b40821,
  0xf61e2562, 0xc040b340, 0x265e5a51, 0xe9b6c7aa, 0xd62f105d, 0x02441453, 0xd8a1e681, 0xe7d3fbc8,
  0x21e1cde6, 0xc33707d6, 0xf4d50d87, 0x455a14ed, 0xa9e3e905, 0xfcefa3f8, 0x676f02d9, 0x8d2a4c8a,
  0xfffa3942, 0x8771f681, 0x6d9d6122, 0xfde5380c, 0xa4beea44, 0x4bdecfa9, 0xf6bb4b60, 0xbebfbc70,
  0x289b7ec6, 0xeaa127fa, 0xd4ef3085, 0x04881d05, 0xd9d4d039, 0xe6db99e5, 0x1fa27cf8, 0xc4ac5665,
  0xf4292244, 0x432aff97, 0xab9423a7, 0xfc93a039, 0x655b59c3, 0x8f0ccc92, 0xffeff47d, 0x85845dd1,
  0x6fa87e4f, 0xfe2ce6e0, 0xa3014314, 0x4e0811a1, 0xf7537e82, 0xbd3af235, 0x2ad7d2bb, 0xeb86d391]

def rotl (x : UInt32) (c : UInt32) : UInt32 := (x <<< c) ||| (x >>> (32 - c))

/-- little-endian 32-bit word at byte offset `o` -/
def wordAt (b : Array UInt8) (o : Nat) : UInt32 :=
  (b.getD o 0).toUInt32 ||| ((b.getD (o + 1) 0).toUInt32 <<< 8) |||
  ((b.getD (o + 2) 0).toUInt32 <<< 16) ||| ((b.getD (o + 3) 0).toUInt32 <<< 24)

structure St where
  a : UInt32
  b : UInt32
  c : UInt32
  d : UInt32

def round (m : Array UInt32) (s : St) (i : Nat) : St :=
  let (f, g) :=
    if i < 16 then ((s.b &&& s.c) ||| (~~~s.b &&& s.d), i)
    else if i < 32 then ((s.d &&& s.b) ||| (~~~s.d &&& s.c), (5 * i + 1) % 16)
    else if i < 48 then (s.b ^^^ s.c ^^^ s.d, (3 * i + 5) % 16)
    else (s.c ^^^ (s.b ||| ~~~s.d), (7 * i) % 16)
  let f := f + s.a + kTable.getD i 0 + m.getD g 0
  { a := s.d, d := s.c, c := s.b, b := s.b + rotl f (sTable.getD i 0) }

def block (msg : Array UInt8) (off : Nat) (s : St) : St :=
  let m : Array UInt32 := (List.range 16).toArray.map fun j => wordAt msg (off + 4 * j)
  let r := (List.range 64).foldl (round m) s
  { a := s.a + r.a, b := s.b + r.b, c := s.c + r.c, d := s.d + r.d }

def leBytes32 (x : UInt32) : List UInt8 :=
  [x.toUInt8, (x >>> 8).toUInt8, (x >>> 16).toUInt8, (x >>> 24).toUInt8]

def leBytes64 (n : Nat) : List UInt8 :=
  (List.range 8).map fun i => UInt8.ofNat ((n / 256 ^ i) % 256)

/-- MD5 digest (16 bytes) -/
def md5 (input : Bytes) : Bytes :=
  let len := input.length
  let padLen := (55 + 64 - len % 64) % 64
  let msg : Array UInt8 := (input ++ [0x80] ++ List.replicate padLen 0 ++ leBytes64 (len * 8)).toArray
  let nblocks := msg.size / 64
  let s0 : St := { a := 0x67452301, b := 0xefcdab89, c := 0x98badcfe, d := 0x10325476 }
  let s := (List.range nblocks).foldl (fun s i => block msg (64 * i) s) s0
  leBytes32 s.a ++ leBytes32 s.b ++ leBytes32 s.c ++ leBytes32 s.d

theorem md5_length (input : Bytes) : (md5 input).length = 16 := by
  simp [md5, leBytes32]

end Bng.Md5
