import Bng.Drv.Common
import Bng.Drv.Dhcp4
import Bng.Drv.Dhcp6
/-
  bngdrv-c02 <component> < trace      — the C02 drivers alone (same components as in Main.lean)
-/
open Bng.Drv

def components : List (String × Component) := [
  ("dhcp4", Dhcp4Drv.component),
  ("dhcp6", Dhcp6Drv.component)
]

def main (args : List String) : IO UInt32 := do
  match args with
  | [name] =>
    match components.lookup name with
    | some c => runComponent c
    | none => IO.eprintln s!"unknown component {name}"; return 2
  | _ => IO.eprintln "usage: bngdrv-c02 <component> < trace"; return 2
