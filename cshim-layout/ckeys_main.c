/* /verif/cshim-layout/ckeys_main.c — C06 key-capture runner.
 *
 * Compiled NATIVELY (x86-64, little-endian like the BPF target) once per /repo/bpf/<prog>.c:
 *
 *     clang -O1 -I/verif/cshim-layout -I/repo/bpf -DPROG_FILE='"/repo/bpf/<prog>.c"' \
 *           -DGEN_HEADER='"<scratch>/ckeys_<prog>.h"' -o <scratch>/ckeys_<prog> ckeys_main.c
 *
 * The UNMODIFIED program source is #included, so its `static __always_inline` key derivations
 * (mac_to_u64, extract_circuit_id_fixed, check_alg_trigger, the struct initialisers of the map keys …)
 * are the real ones.  The map helpers — static function pointers in the parse-only bpf_helpers.h, as
 * in libbpf — are re-pointed at capture functions: every bpf_map_lookup/update/delete_elem the
 * program performs is reported with the RAW KEY BYTES it passed.  Lookups return NULL unless the
 * request supplies a canned value for that map (`map=<hex>`), which is how a program is driven past
 * its first lookup.
 *
 * GEN_HEADER is written by harness/cmd/extractlayout from the same regex pass that feeds the Lean
 * tables: CK_MAPS (name, key size, value size) and CK_PROGS (entry points and their context type).
 *
 * stdin : <entry> <frame hex> [<map>=<value hex>]...        one request per line
 * stdout: ret=<n> [L:<map>:<key>] [U:<map>:<key>:<val>] [D:<map>:<key>] [E:<map>:<bytes>] frame=<hex>
 */
#include PROG_FILE
#include GEN_HEADER
#include <stdio.h>
#include <stdlib.h>
#include <string.h>
#include <sys/mman.h>

struct ck_map {
	const char *name;
	void *addr;
	unsigned ksz, vsz;
	int canned;
	unsigned char val[512];
	/* the last entry the program itself wrote (bpf_map_update_elem): a later lookup of THAT key finds it,
	 * as it would in the kernel (get_eim_mapping re-reads the mapping it has just created) */
	int has_upd;
	unsigned char upd_key[64];
	unsigned char upd_val[512];
};

#define CK_MAP(n, k, v) {#n, (void *)&n, (unsigned)(k), (unsigned)(v), 0, {0}, 0, {0}, {0}},
static struct ck_map ck_maps[] = {CK_MAPS_LIST{0, 0, 0, 0, 0, {0}, 0, {0}, {0}}};
#undef CK_MAP

static char outbuf[1 << 16];
static size_t outlen;

static void emit(const char *s) {
	size_t n = strlen(s);
	if (outlen + n + 1 < sizeof(outbuf)) {
		memcpy(outbuf + outlen, s, n);
		outlen += n;
		outbuf[outlen] = 0;
	}
}

static void emit_hex(const void *p, unsigned n) {
	static const char *hx = "0123456789abcdef";
	const unsigned char *b = p;
	char tmp[3] = {0, 0, 0};
	if (n == 0)
		emit("-");
	for (unsigned i = 0; i < n; i++) {
		tmp[0] = hx[b[i] >> 4];
		tmp[1] = hx[b[i] & 15];
		emit(tmp);
	}
}

static struct ck_map *find_map(void *addr) {
	for (struct ck_map *m = ck_maps; m->name; m++)
		if (m->addr == addr)
			return m;
	return NULL;
}

static void *cap_lookup(void *map, const void *key) {
	struct ck_map *m = find_map(map);
	if (!m) {
		emit(" L:?:-");
		return NULL;
	}
	emit(" L:");
	emit(m->name);
	emit(":");
	emit_hex(key, m->ksz);
	if (m->has_upd && m->ksz <= sizeof(m->upd_key) && !memcmp(key, m->upd_key, m->ksz))
		return m->upd_val;
	return m->canned ? m->val : NULL;
}

static long cap_update(void *map, const void *key, const void *value, __u64 flags) {
	struct ck_map *m = find_map(map);
	(void)flags;
	if (!m) {
		emit(" U:?:-:-");
		return -1;
	}
	emit(" U:");
	emit(m->name);
	emit(":");
	emit_hex(key, m->ksz);
	emit(":");
	emit_hex(value, m->vsz);
	if (m->ksz <= sizeof(m->upd_key) && m->vsz <= sizeof(m->upd_val)) {
		memcpy(m->upd_key, key, m->ksz);
		memcpy(m->upd_val, value, m->vsz);
		m->has_upd = 1;
	}
	return 0;
}

static long cap_delete(void *map, const void *key) {
	struct ck_map *m = find_map(map);
	if (!m)
		return -1;
	emit(" D:");
	emit(m->name);
	emit(":");
	emit_hex(key, m->ksz);
	return 0;
}

static __u64 cap_ktime(void) { return 1000ULL * 1000000000ULL; }

static unsigned char ringbuf_area[4096];
static __u64 ringbuf_size;
static struct ck_map *ringbuf_map;

static void *cap_ringbuf_reserve(void *rb, __u64 size, __u64 flags) {
	(void)flags;
	ringbuf_map = find_map(rb);
	if (size > sizeof(ringbuf_area))
		return NULL;
	memset(ringbuf_area, 0xAA, sizeof(ringbuf_area)); /* uninitialised sample memory is visible */
	ringbuf_size = size;
	return ringbuf_area;
}

static void cap_ringbuf_submit(void *data, __u64 flags) {
	(void)flags;
	emit(" E:");
	emit(ringbuf_map ? ringbuf_map->name : "?");
	emit(":");
	emit_hex(data, (unsigned)ringbuf_size);
}

static long cap_perf_output(void *ctx, void *map, __u64 flags, void *data, __u64 size) {
	struct ck_map *m = find_map(map);
	(void)ctx;
	(void)flags;
	emit(" E:");
	emit(m ? m->name : "?");
	emit(":");
	emit_hex(data, (unsigned)size);
	return 0;
}

static unsigned char *arena; /* MAP_32BIT: xdp_md / __sk_buff carry 32-bit data pointers */
#define HEADROOM 256
#define ARENA_SZ 65536
static __u32 cur_end;

static long cap_adjust_tail(struct xdp_md *x, int delta) {
	long nend = (long)x->data_end + delta;
	if (nend < (long)x->data || nend > (long)(__u32)(unsigned long)(arena + ARENA_SZ))
		return -1;
	x->data_end = (__u32)nend;
	cur_end = x->data_end;
	return 0;
}

static int hexval(int c) {
	if (c >= '0' && c <= '9')
		return c - '0';
	if (c >= 'a' && c <= 'f')
		return c - 'a' + 10;
	if (c >= 'A' && c <= 'F')
		return c - 'A' + 10;
	return -1;
}

static int unhex(const char *s, unsigned char *out, int max) {
	int n = 0;
	if (s[0] == '-' && s[1] == 0)
		return 0;
	while (s[0] && s[1] && n < max) {
		int a = hexval(s[0]), b = hexval(s[1]);
		if (a < 0 || b < 0)
			return -1;
		out[n++] = (unsigned char)(a * 16 + b);
		s += 2;
	}
	return s[0] ? -1 : n;
}

typedef int (*xdp_fn)(struct xdp_md *);
typedef int (*skb_fn)(struct __sk_buff *);
struct ck_prog {
	const char *name;
	xdp_fn xdp;
	skb_fn skb;
};
#define CK_PROG_XDP(n) {#n, n, NULL},
#define CK_PROG_SKB(n) {#n, NULL, n},
static struct ck_prog ck_progs[] = {CK_PROGS_LIST{NULL, NULL, NULL}};

int main(void) {
	static char line[1 << 17];
	arena = mmap(NULL, ARENA_SZ, PROT_READ | PROT_WRITE, MAP_PRIVATE | MAP_ANONYMOUS | MAP_32BIT, -1, 0);
	if (arena == MAP_FAILED) {
		perror("mmap MAP_32BIT");
		return 2;
	}
	bpf_map_lookup_elem = cap_lookup;
	bpf_map_update_elem = cap_update;
	bpf_map_delete_elem = cap_delete;
	bpf_ktime_get_ns = cap_ktime;
	bpf_ringbuf_reserve = cap_ringbuf_reserve;
	bpf_ringbuf_submit = cap_ringbuf_submit;
	bpf_perf_event_output = cap_perf_output;
	bpf_xdp_adjust_tail = cap_adjust_tail;
	while (fgets(line, sizeof(line), stdin)) {
		char *save = NULL;
		char *entry = strtok_r(line, " \r\n", &save);
		char *frame = strtok_r(NULL, " \r\n", &save);
		if (!entry || !frame) {
			printf("error request\n");
			fflush(stdout);
			continue;
		}
		memset(arena, 0, ARENA_SZ);
		int flen = unhex(frame, arena + HEADROOM, ARENA_SZ - 2 * HEADROOM);
		if (flen < 0) {
			printf("error frame\n");
			fflush(stdout);
			continue;
		}
		for (struct ck_map *m = ck_maps; m->name; m++)
			m->canned = m->has_upd = 0;
		int bad = 0;
		for (char *tok; (tok = strtok_r(NULL, " \r\n", &save));) {
			char *eq = strchr(tok, '=');
			if (!eq) {
				bad = 1;
				break;
			}
			*eq = 0;
			struct ck_map *m = NULL;
			for (struct ck_map *x = ck_maps; x->name; x++)
				if (!strcmp(x->name, tok))
					m = x;
			if (!m) {
				bad = 1;
				break;
			}
			memset(m->val, 0, sizeof(m->val));
			if (unhex(eq + 1, m->val, sizeof(m->val)) < 0) {
				bad = 1;
				break;
			}
			m->canned = 1;
		}
		struct ck_prog *p = NULL;
		for (struct ck_prog *x = ck_progs; x->name; x++)
			if (!strcmp(x->name, entry))
				p = x;
		if (bad || !p) {
			printf("error %s\n", bad ? "canned" : "entry");
			fflush(stdout);
			continue;
		}
		outlen = 0;
		outbuf[0] = 0;
		int ret;
		__u32 d = (__u32)(unsigned long)(arena + HEADROOM);
		cur_end = d + (__u32)flen;
		if (p->xdp) {
			struct xdp_md x;
			memset(&x, 0, sizeof(x));
			x.data = d;
			x.data_end = cur_end;
			ret = p->xdp(&x);
			cur_end = x.data_end;
		} else {
			struct __sk_buff s;
			memset(&s, 0, sizeof(s));
			s.data = d;
			s.data_end = cur_end;
			s.len = (__u32)flen;
			ret = p->skb(&s);
		}
		printf("ret=%d%s frame=", ret, outbuf);
		outlen = 0;
		outbuf[0] = 0;
		emit_hex(arena + HEADROOM, cur_end - d);
		printf("%s\n", outbuf);
		fflush(stdout);
	}
	return 0;
}
