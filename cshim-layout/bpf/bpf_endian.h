/* parse-only stand-in for <bpf/bpf_endian.h> (little-endian host = little-endian BPF target) */
#ifndef __BPF_ENDIAN__
#define __BPF_ENDIAN__
#include <linux/types.h>
#define bpf_htons(x) ((__be16)__builtin_bswap16((__u16)(x)))
#define bpf_ntohs(x) ((__u16)__builtin_bswap16((__u16)(x)))
#define bpf_htonl(x) ((__be32)__builtin_bswap32((__u32)(x)))
#define bpf_ntohl(x) ((__u32)__builtin_bswap32((__u32)(x)))
#define bpf_cpu_to_be64(x) __builtin_bswap64((__u64)(x))
#define bpf_be64_to_cpu(x) __builtin_bswap64((__u64)(x))
#define bpf_constant_htons(x) bpf_htons(x)
#define bpf_constant_ntohs(x) bpf_ntohs(x)
#define bpf_constant_htonl(x) bpf_htonl(x)
#define bpf_constant_ntohl(x) bpf_ntohl(x)
#endif
