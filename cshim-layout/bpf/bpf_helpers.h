/* /verif/cshim-layout — PARSE-ONLY stand-in for libbpf's <bpf/bpf_helpers.h>, used by the C06 layout
 * translator (harness/cmd/extractlayout + tools/clayout.py).  It only has to make the UNMODIFIED
 * /repo/bpf/*.c parse and lay out natively (x86-64, little-endian, same integer widths as the BPF
 * target); no helper is ever called.  Map-declaration macros are the real libbpf definitions, so the
 * anonymous map structs carry the key/value types as pointer members, exactly as BTF sees them.
 */
#ifndef __BPF_HELPERS__
#define __BPF_HELPERS__
#include <stddef.h>
#include <linux/types.h>
#include <linux/bpf.h>

#define SEC(name) __attribute__((section(name), used))
#define __uint(name, val) int (*name)[val]
#define __type(name, val) __typeof__(val) *name
#define __array(name, val) __typeof__(val) *name[]
#ifndef __always_inline
#define __always_inline inline __attribute__((always_inline))
#endif
#ifndef __noinline
#define __noinline __attribute__((noinline))
#endif
#ifndef __weak
#define __weak __attribute__((weak))
#endif
#ifndef offsetof
#define offsetof(TYPE, MEMBER) __builtin_offsetof(TYPE, MEMBER)
#endif
#ifndef barrier
#define barrier() asm volatile("" ::: "memory")
#endif
#ifndef barrier_var
#define barrier_var(var) asm volatile("" : "+r"(var))
#endif
#ifndef likely
#define likely(x) __builtin_expect(!!(x), 1)
#endif
#ifndef unlikely
#define unlikely(x) __builtin_expect(!!(x), 0)
#endif

/* helpers: static function pointers, as in libbpf's bpf_helper_defs.h (never called here) */
static void *(*bpf_map_lookup_elem)(void *map, const void *key) = (void *)1;
static long (*bpf_map_update_elem)(void *map, const void *key, const void *value, __u64 flags) = (void *)2;
static long (*bpf_map_delete_elem)(void *map, const void *key) = (void *)3;
static __u64 (*bpf_ktime_get_ns)(void) = (void *)5;
static long (*bpf_trace_printk)(const char *fmt, __u32 fmt_size, ...) = (void *)6;
static __u32 (*bpf_get_prandom_u32)(void) = (void *)7;
static __u32 (*bpf_get_smp_processor_id)(void) = (void *)8;
static long (*bpf_perf_event_output)(void *ctx, void *map, __u64 flags, void *data, __u64 size) = (void *)25;
static long (*bpf_redirect)(__u32 ifindex, __u64 flags) = (void *)23;
static long (*bpf_xdp_adjust_head)(struct xdp_md *xdp_md, int delta) = (void *)44;
static long (*bpf_xdp_adjust_tail)(struct xdp_md *xdp_md, int delta) = (void *)65;
static long (*bpf_skb_store_bytes)(struct __sk_buff *skb, __u32 offset, const void *from, __u32 len, __u64 flags) = (void *)9;
static long (*bpf_skb_load_bytes)(const void *skb, __u32 offset, void *to, __u32 len) = (void *)26;
static long (*bpf_l3_csum_replace)(struct __sk_buff *skb, __u32 offset, __u64 from, __u64 to, __u64 size) = (void *)10;
static long (*bpf_l4_csum_replace)(struct __sk_buff *skb, __u32 offset, __u64 from, __u64 to, __u64 flags) = (void *)11;
static __s64 (*bpf_csum_diff)(__be32 *from, __u32 from_size, __be32 *to, __u32 to_size, __wsum seed) = (void *)28;
static void *(*bpf_ringbuf_reserve)(void *ringbuf, __u64 size, __u64 flags) = (void *)131;
static void (*bpf_ringbuf_submit)(void *data, __u64 flags) = (void *)132;
static void (*bpf_ringbuf_discard)(void *data, __u64 flags) = (void *)133;
static long (*bpf_ringbuf_output)(void *ringbuf, void *data, __u64 size, __u64 flags) = (void *)130;
static long (*bpf_redirect_map)(void *map, __u64 key, __u64 flags) = (void *)51;

#define bpf_printk(fmt, ...) ((void)0)
#endif
