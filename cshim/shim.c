/* /verif/cshim/shim.c — the user-space BPF environment: map table, scripted clock, guard-page packet
 * arena, event capture.  Plain C, no dependency on the program under test.  See README.md. */
#define _GNU_SOURCE
#include <errno.h>
#include <stdio.h>
#include <stdlib.h>
#include <string.h>
#include <sys/mman.h>
#include <unistd.h>

#include "shim.h"

/* =============================================================================================== maps */
static struct shim_map *maps;
static uint64_t lru_clock;
char shim_map_error[160];

static void drop_entry(struct shim_map *m, struct shim_entry *victim);

static int trace_on;
static char trace_buf[8192];
static size_t trace_len;

void shim_trace_enable(int on) { trace_on = on; trace_len = 0; trace_buf[0] = 0; }

const char *shim_trace_take(void)
{
	static char out[sizeof(trace_buf)];
	memcpy(out, trace_buf, trace_len + 1);
	trace_len = 0;
	trace_buf[0] = 0;
	return out;
}

static void trace_add(char kind, const struct shim_map *m, const void *key, const char *res)
{
	if (!trace_on)
		return;
	size_t need = 4 + strlen(m->name) + 2 * m->key_size + strlen(res) + 2;
	if (trace_len + need >= sizeof(trace_buf))
		return;
	char *p = trace_buf + trace_len;
	if (trace_len)
		*p++ = ',';
	p += sprintf(p, "%c:%s:", kind, m->name);
	for (unsigned i = 0; i < m->key_size; i++)
		p += sprintf(p, "%02x", ((const unsigned char *)key)[i]);
	p += sprintf(p, ":%s", res);
	trace_len = (size_t)(p - trace_buf);
}

static const char *clean_name(const char *name, char *buf, size_t n)
{
	while (*name == '&' || *name == ' ' || *name == '(')
		name++;
	size_t i = 0;
	while (name[i] && name[i] != ' ' && name[i] != ')' && i + 1 < n) {
		buf[i] = name[i];
		i++;
	}
	buf[i] = 0;
	return buf;
}

struct shim_map *shim_map_first(void) { return maps; }

struct shim_map *shim_map_by_name(const char *name)
{
	char b[64];
	clean_name(name, b, sizeof b);
	for (struct shim_map *m = maps; m; m = m->next)
		if (!strcmp(m->name, b))
			return m;
	return NULL;
}

static int is_array(unsigned t)
{
	return t == BPF_MAP_TYPE_ARRAY || t == BPF_MAP_TYPE_PERCPU_ARRAY;
}

struct shim_map *shim_map_desc(const char *name, const void *addr, unsigned type,
			       unsigned key_size, unsigned value_size, unsigned max_entries)
{
	struct shim_map *m;
	if (addr)
		for (m = maps; m; m = m->next)
			if (m->addr == addr)
				return m;
	m = shim_map_by_name(name);
	if (!m) {
		m = calloc(1, sizeof *m);
		clean_name(name, m->name, sizeof m->name);
		m->type = SHIM_TYPE_UNKNOWN;
		m->key_size = key_size;
		m->value_size = value_size;
		/* append: keep declaration/first-use order stable for `maps` listings */
		struct shim_map **pp = &maps;
		while (*pp)
			pp = &(*pp)->next;
		*pp = m;
	}
	if (addr || type != SHIM_TYPE_UNKNOWN) {
		/* the program (or an explicit declaration) tells the real geometry */
		if (m->key_size != key_size || m->value_size != value_size) {
			/* the control plane wrote entries of another geometry than the program declares: the kernel
			 * would have refused them.  Report it, drop them, continue with the program's geometry. */
			if (!shim_map_error[0])
				snprintf(shim_map_error, sizeof shim_map_error,
					 "mapsize %s key=%u/%u value=%u/%u", m->name,
					 m->key_size, key_size, m->value_size, value_size);
			while (m->entries)
				drop_entry(m, m->entries);
			m->key_size = key_size;
			m->value_size = value_size;
		}
		m->addr = addr ? addr : m->addr;
		m->type = type;
		m->max_entries = max_entries;
	}
	return m;
}

/* number of leading bits on which a and b agree, at most `limit` */
static unsigned common_bits(const unsigned char *a, const unsigned char *b, unsigned limit)
{
	unsigned n = 0;
	while (n < limit) {
		unsigned char x = a[n / 8] ^ b[n / 8];
		if (x == 0 && limit - n >= 8 && n % 8 == 0) {
			n += 8;
			continue;
		}
		if (x & (0x80u >> (n % 8)))
			break;
		n++;
	}
	return n;
}

static unsigned lpm_prefixlen(const void *key)
{
	__u32 p;
	memcpy(&p, key, 4);
	return p;
}

/* same trie node: equal prefix length and equal first prefixlen bits */
static int lpm_same(const struct shim_map *m, const unsigned char *a, const unsigned char *b)
{
	unsigned pa = lpm_prefixlen(a), pb = lpm_prefixlen(b);
	if (pa != pb)
		return 0;
	unsigned maxbits = (m->key_size - 4) * 8;
	if (pa > maxbits)
		return 0;
	return common_bits(a + 4, b + 4, pa) == pa;
}

static struct shim_entry *find_exact(struct shim_map *m, const void *key)
{
	for (struct shim_entry *e = m->entries; e; e = e->next) {
		if (m->type == BPF_MAP_TYPE_LPM_TRIE ? lpm_same(m, e->key, key)
						     : !memcmp(e->key, key, m->key_size))
			return e;
	}
	return NULL;
}

static struct shim_entry *add_entry(struct shim_map *m, const void *key)
{
	struct shim_entry *e = calloc(1, sizeof *e);
	e->key = malloc(m->key_size ? m->key_size : 1);
	e->value = calloc(1, m->value_size ? m->value_size : 1);
	memcpy(e->key, key, m->key_size);
	e->used = ++lru_clock;
	e->next = m->entries;
	m->entries = e;
	m->count++;
	return e;
}

static void drop_entry(struct shim_map *m, struct shim_entry *victim)
{
	for (struct shim_entry **pp = &m->entries; *pp; pp = &(*pp)->next) {
		if (*pp == victim) {
			*pp = victim->next;
			free(victim->key);
			free(victim->value);
			free(victim);
			m->count--;
			return;
		}
	}
}

void *shim_map_get_exact(struct shim_map *m, const void *key)
{
	if (is_array(m->type)) {
		__u32 idx;
		memcpy(&idx, key, 4);
		if (idx >= m->max_entries)
			return NULL;
		struct shim_entry *e = find_exact(m, key);
		if (!e)
			e = add_entry(m, key);   /* arrays are pre-populated with zeroes */
		return e->value;
	}
	struct shim_entry *e = find_exact(m, key);
	return e ? e->value : NULL;
}

void *shim_map_lookup(struct shim_map *m, const void *key)
{
	void *v = NULL;
	if (m->type == BPF_MAP_TYPE_LPM_TRIE) {
		unsigned maxbits = (m->key_size - 4) * 8, want = lpm_prefixlen(key);
		struct shim_entry *best = NULL;
		if (want <= maxbits) {
			for (struct shim_entry *e = m->entries; e; e = e->next) {
				unsigned pl = lpm_prefixlen(e->key);
				if (pl > want || pl > maxbits)
					continue;
				if (common_bits(e->key + 4, (const unsigned char *)key + 4, pl) != pl)
					continue;
				if (!best || pl > lpm_prefixlen(best->key))
					best = e;
			}
		}
		v = best ? best->value : NULL;
	} else {
		v = shim_map_get_exact(m, key);
		if (v && m->type == BPF_MAP_TYPE_LRU_HASH) {
			struct shim_entry *e = find_exact(m, key);
			if (e)
				e->used = ++lru_clock;
		}
	}
	trace_add('l', m, key, v ? "h" : "m");
	return v;
}

long shim_map_update(struct shim_map *m, const void *key, const void *value, __u64 flags)
{
	long rc = 0;
	if (flags > BPF_EXIST) {
		rc = -EINVAL;
		goto out;
	}
	if (is_array(m->type)) {
		__u32 idx;
		memcpy(&idx, key, 4);
		if (idx >= m->max_entries) {
			rc = -E2BIG;
			goto out;
		}
		if (flags == BPF_NOEXIST) {
			rc = -EEXIST;
			goto out;
		}
		memcpy(shim_map_get_exact(m, key), value, m->value_size);
		goto out;
	}
	if (m->type == BPF_MAP_TYPE_LPM_TRIE && lpm_prefixlen(key) > (m->key_size - 4) * 8) {
		rc = -EINVAL;
		goto out;
	}
	struct shim_entry *e = find_exact(m, key);
	if (e && flags == BPF_NOEXIST) {
		rc = -EEXIST;
		goto out;
	}
	if (!e && flags == BPF_EXIST) {
		rc = -ENOENT;
		goto out;
	}
	if (!e) {
		if (m->type != SHIM_TYPE_UNKNOWN && m->max_entries && m->count >= m->max_entries) {
			if (m->type == BPF_MAP_TYPE_LRU_HASH) {
				struct shim_entry *old = m->entries;
				for (struct shim_entry *x = m->entries; x; x = x->next)
					if (x->used < old->used)
						old = x;
				drop_entry(m, old);
			} else {
				rc = m->type == BPF_MAP_TYPE_LPM_TRIE ? -ENOSPC : -E2BIG;
				goto out;
			}
		}
		e = add_entry(m, key);
	}
	if (m->type == BPF_MAP_TYPE_LPM_TRIE)
		memcpy(e->key, key, m->key_size);   /* a replaced node takes the new key's trailing bits */
	memcpy(e->value, value, m->value_size);
	e->used = ++lru_clock;
out:
	{
		char r[24];
		snprintf(r, sizeof r, "%ld", rc);
		trace_add('u', m, key, r);
	}
	return rc;
}

long shim_map_delete(struct shim_map *m, const void *key)
{
	long rc = 0;
	if (is_array(m->type)) {
		rc = -EINVAL;
	} else {
		struct shim_entry *e = find_exact(m, key);
		if (!e)
			rc = -ENOENT;
		else
			drop_entry(m, e);
	}
	char r[24];
	snprintf(r, sizeof r, "%ld", rc);
	trace_add('d', m, key, r);
	return rc;
}

void shim_maps_clear(void)
{
	for (struct shim_map *m = maps; m; m = m->next)
		while (m->entries)
			drop_entry(m, m->entries);
	shim_map_error[0] = 0;
}

/* ======================================================================================= clock / rand */
static uint64_t clock_ns, clock_step;
static uint64_t rand_state = 0x9e3779b97f4a7c15ull;

void shim_clock_set(uint64_t ns, uint64_t step) { clock_ns = ns; clock_step = step; }
uint64_t shim_clock_get(void) { return clock_ns; }
void shim_rand_seed(uint64_t seed) { rand_state = seed ? seed : 0x9e3779b97f4a7c15ull; }

__u64 bpf_ktime_get_ns(void)
{
	uint64_t t = clock_ns;
	clock_ns += clock_step;
	return t;
}

__u64 bpf_ktime_get_boot_ns(void) { return bpf_ktime_get_ns(); }

__u32 bpf_get_prandom_u32(void)
{
	/* xorshift64*: deterministic, seeded by the runner op `rand <seed>` */
	rand_state ^= rand_state >> 12;
	rand_state ^= rand_state << 25;
	rand_state ^= rand_state >> 27;
	return (__u32)((rand_state * 0x2545f4914f6cdd1dull) >> 32);
}

__u32 bpf_get_smp_processor_id(void) { return 0; }

/* ============================================================================================ packets */
static unsigned char *arena;        /* start of the RW part */
static size_t page;
unsigned char *shim_cur_data, *shim_cur_end;

static void arena_init(void)
{
	if (arena)
		return;
	page = (size_t)sysconf(_SC_PAGESIZE);
	size_t total = page + SHIM_PKT_MAX + page;
	unsigned char *p = mmap(NULL, total, PROT_NONE, MAP_PRIVATE | MAP_ANONYMOUS | MAP_32BIT, -1, 0);
	if (p == MAP_FAILED || (uintptr_t)p + total > 0xffffffffull) {
		perror("cshim: mmap MAP_32BIT");
		exit(3);
	}
	if (mprotect(p + page, SHIM_PKT_MAX, PROT_READ | PROT_WRITE)) {
		perror("cshim: mprotect");
		exit(3);
	}
	arena = p + page;
}

unsigned char *shim_pkt_end(void)
{
	arena_init();
	return arena + SHIM_PKT_MAX;
}

unsigned char *shim_pkt_place(const unsigned char *bytes, size_t len)
{
	arena_init();
	if (len > SHIM_PKT_MAX)
		len = SHIM_PKT_MAX;
	unsigned char *start = arena + SHIM_PKT_MAX - len;
	/* scrub what an earlier, longer frame left below the new start (so stale bytes are never read as payload) */
	memset(arena, 0xa5, SHIM_PKT_MAX - len);
	if (len)
		memcpy(start, bytes, len);
	shim_cur_data = start;
	shim_cur_end = start + len;
	return start;
}

int shim_pkt_contains_fault(const void *fault_addr, long *off_from_start)
{
	arena_init();
	const unsigned char *a = fault_addr;
	if (a >= arena - page && a < arena + SHIM_PKT_MAX + page) {
		if (off_from_start)
			*off_from_start = (long)(a - shim_cur_data);
		return 1;
	}
	return 0;
}

/* The kernel grows/shrinks the frame at its tail.  Here the frame is moved so that its (new) last byte stays
 * flush with the guard page; programs must reload data/data_end from ctx afterwards (the verifier enforces it). */
long bpf_xdp_adjust_tail(struct xdp_md *ctx, int delta)
{
	unsigned char *data = (unsigned char *)(uintptr_t)ctx->data;
	unsigned char *end = (unsigned char *)(uintptr_t)ctx->data_end;
	long len = end - data, nlen = len + delta;
	if (nlen < 14)                 /* ETH_HLEN, as in the kernel */
		return -EINVAL;
	if (nlen > 4096 - 256 - 320 && delta > 0)   /* one page minus XDP headroom and skb_shared_info tailroom */
		return -EINVAL;
	unsigned char *nstart = shim_pkt_end() - nlen;
	long keep = len < nlen ? len : nlen;
	memmove(nstart, data, (size_t)keep);
	if (nlen > len)
		memset(nstart + len, 0, (size_t)(nlen - len));   /* the kernel zeroes the grown tail */
	ctx->data = (__u32)(uintptr_t)nstart;
	ctx->data_meta = ctx->data;
	ctx->data_end = (__u32)(uintptr_t)(nstart + nlen);
	shim_cur_data = nstart;
	shim_cur_end = nstart + nlen;
	return 0;
}

long bpf_xdp_adjust_head(struct xdp_md *ctx, int delta)
{
	unsigned char *data = (unsigned char *)(uintptr_t)ctx->data;
	unsigned char *end = (unsigned char *)(uintptr_t)ctx->data_end;
	unsigned char *ndata = data + delta;
	if (ndata > end - 14 || ndata < end - (4096 - 320) || ndata < arena)
		return -EINVAL;
	ctx->data = (__u32)(uintptr_t)ndata;
	ctx->data_meta = ctx->data;
	shim_cur_data = ndata;
	return 0;
}

long shim_redirect_ifindex = -1;

long bpf_redirect(__u32 ifindex, __u64 flags)
{
	(void)flags;
	shim_redirect_ifindex = ifindex;
	return 7; /* TC_ACT_REDIRECT; XDP_REDIRECT is 4 — XDP callers of bpf_redirect are not used in /repo/bpf */
}

long bpf_skb_load_bytes(const struct __sk_buff *skb, __u32 offset, void *to, __u32 len)
{
	const unsigned char *data = (const unsigned char *)(uintptr_t)skb->data;
	const unsigned char *end = (const unsigned char *)(uintptr_t)skb->data_end;
	if ((uint64_t)offset + len > (uint64_t)(end - data)) {
		memset(to, 0, len);
		return -EFAULT;
	}
	memcpy(to, data + offset, len);
	return 0;
}

long bpf_skb_store_bytes(struct __sk_buff *skb, __u32 offset, const void *from, __u32 len, __u64 flags)
{
	(void)flags;
	unsigned char *data = (unsigned char *)(uintptr_t)skb->data;
	unsigned char *end = (unsigned char *)(uintptr_t)skb->data_end;
	if ((uint64_t)offset + len > (uint64_t)(end - data))
		return -EFAULT;
	memcpy(data + offset, from, len);
	return 0;
}

__s64 bpf_csum_diff(__be32 *from, __u32 from_size, __be32 *to, __u32 to_size, __wsum seed)
{
	if ((from_size | to_size) & 3)
		return -EINVAL;
	uint64_t sum = seed;
	for (__u32 i = 0; i < from_size / 4; i++)
		sum += (__u32)~from[i];
	for (__u32 i = 0; i < to_size / 4; i++)
		sum += to[i];
	while (sum >> 32)
		sum = (sum & 0xffffffffu) + (sum >> 32);
	return (__s64)sum;
}

/* ============================================================================================= events */
struct shim_event shim_events[16];
unsigned shim_event_count;

void shim_events_reset(void) { shim_event_count = 0; shim_redirect_ifindex = -1; }

long shim_event_output(const char *map_name, const void *data, __u64 size)
{
	if (shim_event_count < 16) {
		struct shim_event *e = &shim_events[shim_event_count];
		clean_name(map_name, e->map, sizeof e->map);
		e->size = size > sizeof e->data ? (unsigned)sizeof e->data : (unsigned)size;
		memcpy(e->data, data, e->size);
	}
	shim_event_count++;
	return 0;
}

struct rb_hdr { char map[48]; __u64 size; };

void *shim_ringbuf_reserve(const char *map_name, __u64 size)
{
	/* own allocation of exactly `size` bytes after the header: ASan sees a write past the record */
	struct rb_hdr *h = malloc(sizeof *h + size);
	if (!h)
		return NULL;
	clean_name(map_name, h->map, sizeof h->map);
	h->size = size;
	memset(h + 1, 0, size);
	return h + 1;
}

void shim_ringbuf_commit(void *data, int discard)
{
	struct rb_hdr *h = (struct rb_hdr *)data - 1;
	if (!discard)
		shim_event_output(h->map, data, h->size);
	free(h);
}
