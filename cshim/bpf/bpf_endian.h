/* /verif/cshim — user-space stand-in for libbpf's <bpf/bpf_endian.h> (little-endian x86-64 host,
 * the same byte order as the deployment target). */
#ifndef __BPF_ENDIAN__
#define __BPF_ENDIAN__

#include <linux/types.h>

#if __BYTE_ORDER__ != __ORDER_LITTLE_ENDIAN__
#error "cshim models the little-endian target only"
#endif

#define ___bpf_swab16(x) ((__u16)((((__u16)(x) & 0x00ffU) << 8) | (((__u16)(x) & 0xff00U) >> 8)))
#define ___bpf_swab32(x) ((__u32)__builtin_bswap32((__u32)(x)))
#define ___bpf_swab64(x) ((__u64)__builtin_bswap64((__u64)(x)))

#define bpf_htons(x) ___bpf_swab16(x)
#define bpf_ntohs(x) ___bpf_swab16(x)
#define bpf_htonl(x) ___bpf_swab32(x)
#define bpf_ntohl(x) ___bpf_swab32(x)
#define bpf_cpu_to_be64(x) ___bpf_swab64(x)
#define bpf_be64_to_cpu(x) ___bpf_swab64(x)
#define bpf_cpu_to_be32(x) ___bpf_swab32(x)
#define bpf_be32_to_cpu(x) ___bpf_swab32(x)
#define bpf_cpu_to_be16(x) ___bpf_swab16(x)
#define bpf_be16_to_cpu(x) ___bpf_swab16(x)
#define bpf_cpu_to_le64(x) ((__u64)(x))
#define bpf_le64_to_cpu(x) ((__u64)(x))
#define bpf_cpu_to_le32(x) ((__u32)(x))
#define bpf_le32_to_cpu(x) ((__u32)(x))
#define bpf_cpu_to_le16(x) ((__u16)(x))
#define bpf_le16_to_cpu(x) ((__u16)(x))

#endif /* __BPF_ENDIAN__ */
