/* /verif/cshim — user-space stand-in for libbpf's <bpf/bpf_helpers.h>.
 *
 * The UNMODIFIED /repo/bpf/<prog>.c files are compiled natively (x86-64, clang, ASan+UBSan) against
 * this header.  Everything a BPF program gets from the kernel is provided by cshim/shim.c:
 *
 *   maps      bpf_map_{lookup,update,delete}_elem are MACROS: they take `&map_variable` exactly as the
 *             programs write it and derive the map's name (stringified), type, key size, value size and
 *             max_entries from the BTF-style anonymous struct at COMPILE time, then call the user-space
 *             map table of shim.c.  (All call sites in /repo/bpf pass `&<map variable>` directly.)
 *   clock     bpf_ktime_get_ns() returns the scripted clock (runner op `clock <ns> [step]`).
 *   packet    ctx->data / ctx->data_end are 32-bit: frames live in a MAP_32BIT mapping, their last byte
 *             flush against a PROT_NONE guard page (see shim_pkt_*), so that an out-of-bounds read or
 *             write past data_end is a SIGSEGV, reported by the runner as the observation `FAULT`.
 *   events    perf/ringbuf output is captured (runner op `events`), bpf_printk is a no-op.
 *
 * See cshim/README.md.
 */
#ifndef __BPF_HELPERS__
#define __BPF_HELPERS__

#include <stddef.h>
#include <linux/types.h>
#include <linux/bpf.h>

/* ---- declaration macros --------------------------------------------------------------------- */
#define SEC(name) __attribute__((section(name), used))

#define __uint(name, val) int (*name)[val]
#define __type(name, val) __typeof__(val) *name
#define __array(name, val) __typeof__(val) *name[]

#ifndef __always_inline
#define __always_inline inline __attribute__((always_inline))
#endif
#ifndef __noinline
#define __noinline __attribute__((noinline))
#endif
#ifndef __weak
#define __weak __attribute__((weak))
#endif
#ifndef __maybe_unused
#define __maybe_unused __attribute__((unused))
#endif
#ifndef likely
#define likely(x) __builtin_expect(!!(x), 1)
#endif
#ifndef unlikely
#define unlikely(x) __builtin_expect(!!(x), 0)
#endif
#ifndef barrier
#define barrier() asm volatile("" ::: "memory")
#endif
#ifndef barrier_var
#define barrier_var(var) asm volatile("" : "+r"(var))
#endif
#ifndef offsetof
#define offsetof(TYPE, MEMBER) __builtin_offsetof(TYPE, MEMBER)
#endif

/* ---- the user-space map table (shim.c) ------------------------------------------------------- */
struct shim_map;

/* find-or-create the table of the map variable `addr` called `name` ("&qos_egress" is accepted) */
struct shim_map *shim_map_desc(const char *name, const void *addr, unsigned type,
			       unsigned key_size, unsigned value_size, unsigned max_entries);
void *shim_map_lookup(struct shim_map *m, const void *key);
long shim_map_update(struct shim_map *m, const void *key, const void *value, __u64 flags);
long shim_map_delete(struct shim_map *m, const void *key);

#define SHIM_MAP_TYPE(map) ((unsigned)(sizeof(*(map)->type) / sizeof(int)))
#define SHIM_MAP_MAX(map) ((unsigned)(sizeof(*(map)->max_entries) / sizeof(int)))
#define SHIM_MAP_DESC(map) \
	shim_map_desc(#map, (const void *)(map), SHIM_MAP_TYPE(map), \
		      (unsigned)sizeof(*(map)->key), (unsigned)sizeof(*(map)->value), SHIM_MAP_MAX(map))

#define bpf_map_lookup_elem(map, key) shim_map_lookup(SHIM_MAP_DESC(map), (key))
#define bpf_map_update_elem(map, key, value, flags) \
	shim_map_update(SHIM_MAP_DESC(map), (key), (value), (flags))
#define bpf_map_delete_elem(map, key) shim_map_delete(SHIM_MAP_DESC(map), (key))

/* ---- helpers ---------------------------------------------------------------------------------- */
__u64 bpf_ktime_get_ns(void);
__u64 bpf_ktime_get_boot_ns(void);
__u32 bpf_get_prandom_u32(void);
__u32 bpf_get_smp_processor_id(void);

long bpf_xdp_adjust_tail(struct xdp_md *ctx, int delta);
long bpf_xdp_adjust_head(struct xdp_md *ctx, int delta);
long bpf_redirect(__u32 ifindex, __u64 flags);

long bpf_skb_load_bytes(const struct __sk_buff *skb, __u32 offset, void *to, __u32 len);
long bpf_skb_store_bytes(struct __sk_buff *skb, __u32 offset, const void *from, __u32 len, __u64 flags);
__s64 bpf_csum_diff(__be32 *from, __u32 from_size, __be32 *to, __u32 to_size, __wsum seed);

/* event output: captured by the runner (op `events`), never fails */
long shim_event_output(const char *map_name, const void *data, __u64 size);
void *shim_ringbuf_reserve(const char *map_name, __u64 size);
void shim_ringbuf_commit(void *data, int discard);

#define bpf_perf_event_output(ctx, map, flags, data, size) \
	((void)(ctx), (void)(flags), shim_event_output(#map, (data), (size)))
#define bpf_ringbuf_output(map, data, size, flags) ((void)(flags), shim_event_output(#map, (data), (size)))
#define bpf_ringbuf_reserve(map, size, flags) ((void)(flags), shim_ringbuf_reserve(#map, (size)))
#define bpf_ringbuf_submit(data, flags) ((void)(flags), shim_ringbuf_commit((data), 0))
#define bpf_ringbuf_discard(data, flags) ((void)(flags), shim_ringbuf_commit((data), 1))

#define bpf_printk(fmt, ...) ((void)0)
#define bpf_trace_printk(fmt, size, ...) ((long)0)

#endif /* __BPF_HELPERS__ */
