/* /verif/cshim/shim.h — runtime API of the user-space BPF environment (implemented in shim.c),
 * used by runprog.c and usable from any other native test driver that links a /repo/bpf program. */
#ifndef CSHIM_SHIM_H
#define CSHIM_SHIM_H

#include <stddef.h>
#include <stdint.h>
#include <linux/types.h>
#include <linux/bpf.h>

/* ---- maps --------------------------------------------------------------------------------------- */
#define SHIM_TYPE_UNKNOWN 0xffffffffu   /* created by name from the runner before the program used it */

struct shim_entry {
	struct shim_entry *next;
	unsigned char *key;     /* key_size bytes (own malloc: ASan sees overruns) */
	unsigned char *value;   /* value_size bytes (own malloc) */
	uint64_t used;          /* LRU stamp */
};

struct shim_map {
	struct shim_map *next;
	char name[64];
	const void *addr;       /* address of the program's map variable (NULL until first used by C) */
	unsigned type, key_size, value_size, max_entries;
	unsigned count;
	struct shim_entry *entries;   /* insertion order, newest first */
};

struct shim_map *shim_map_desc(const char *name, const void *addr, unsigned type,
			       unsigned key_size, unsigned value_size, unsigned max_entries);
struct shim_map *shim_map_by_name(const char *name);           /* NULL if unknown */
struct shim_map *shim_map_first(void);
void *shim_map_lookup(struct shim_map *m, const void *key);     /* program semantics (LPM = longest match) */
void *shim_map_get_exact(struct shim_map *m, const void *key);  /* control-plane semantics (exact key) */
long shim_map_update(struct shim_map *m, const void *key, const void *value, __u64 flags);
long shim_map_delete(struct shim_map *m, const void *key);
void shim_maps_clear(void);                                      /* drop all entries of all maps */

/* set when a program used a map with sizes different from those the control plane wrote; the text says which */
extern char shim_map_error[160];

/* map-access trace of the current run (enabled with shim_trace_enable) */
void shim_trace_enable(int on);
const char *shim_trace_take(void);      /* "l:<map>:<hexkey>:h,u:<map>:<hexkey>:0,…" and reset; "" if none */

/* ---- clock / random ----------------------------------------------------------------------------- */
void shim_clock_set(uint64_t ns, uint64_t step);    /* every bpf_ktime_get_ns() returns ns, then ns += step */
uint64_t shim_clock_get(void);
void shim_rand_seed(uint64_t seed);

/* ---- packets ------------------------------------------------------------------------------------ */
/* One MAP_32BIT arena: [PROT_NONE guard][SHIM_PKT_MAX bytes RW][PROT_NONE guard].  A frame of `len`
 * bytes is placed so that its LAST byte is the last byte before the upper guard page. */
#define SHIM_PKT_MAX (256 * 1024)
unsigned char *shim_pkt_place(const unsigned char *bytes, size_t len);   /* returns frame start */
unsigned char *shim_pkt_end(void);                                       /* == start + len == guard page */
int shim_pkt_contains_fault(const void *fault_addr, long *off_from_start);

/* current xdp frame bounds (bpf_xdp_adjust_tail moves the frame to keep it flush with the guard) */
extern unsigned char *shim_cur_data, *shim_cur_end;

/* ---- events ------------------------------------------------------------------------------------- */
struct shim_event { char map[48]; unsigned size; unsigned char data[256]; };
extern struct shim_event shim_events[16];
extern unsigned shim_event_count;      /* number emitted during the current run (may exceed 16) */
void shim_events_reset(void);

/* last bpf_redirect target (ifindex), or -1 */
extern long shim_redirect_ifindex;

#endif
