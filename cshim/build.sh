#!/bin/sh
# Build the native line-protocol runners  <outdir>/runprog-<prog>  from /repo's WORKING TREE.
#
#   sh cshim/build.sh [outdir] [prog ...]
#
# outdir defaults to ${XDG_CACHE_HOME:-/var/tmp}/bngverif-cshim ; progs default to all four programs.
# Offline, needs only clang and the kernel uapi headers in /usr/include/linux.
# Each /repo/bpf/<prog>.c is compiled UNMODIFIED (its own translation unit) against the shim headers
# in this directory, with AddressSanitizer and UndefinedBehaviorSanitizer, and linked with shim.c and
# runprog.c.  -fno-sanitize=alignment: frames end flush against the guard page, so their start is not
# aligned; unaligned loads are fine on the target.
set -e
HERE=$(cd "$(dirname "$0")" && pwd)
REPO=${VERIF_REPO:-/repo}
OUT=${1:-${XDG_CACHE_HOME:-/var/tmp}/bngverif-cshim}
[ $# -gt 0 ] && shift
PROGS=${*:-qos_ratelimit antispoof dhcp_fastpath nat44}
CC=${CLANG:-clang}
SAN="-fsanitize=address,undefined -fno-sanitize=alignment -fsanitize-recover=address,undefined"
CFLAGS="-O1 -g -fno-omit-frame-pointer $SAN -I$HERE -I$REPO/bpf -Wall -Wno-unused-function -Wno-pass-failed -Wno-unknown-pragmas -Wno-unused-variable -Wno-address-of-packed-member"
mkdir -p "$OUT"
$CC $CFLAGS -c "$HERE/shim.c" -o "$OUT/shim.o"
$CC $CFLAGS -c "$HERE/runprog.c" -o "$OUT/runprog.o"
for p in $PROGS; do
	$CC $CFLAGS -c "$REPO/bpf/$p.c" -o "$OUT/$p.o"
	$CC $SAN -rdynamic "$OUT/runprog.o" "$OUT/shim.o" "$OUT/$p.o" -ldl -o "$OUT/runprog-$p"
	echo "built $OUT/runprog-$p"
done
