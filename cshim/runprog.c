/* /verif/cshim/runprog.c — line-protocol runner for ONE natively compiled /repo/bpf/<prog>.c.
 *
 * Linked with the program's object file and shim.c; entry points are found with dlsym() (the
 * executable is linked -rdynamic), so there is no per-program table: any `SEC("tc…")`/`SEC("xdp")`
 * function of the program can be run by name.
 *
 * stdin : one op per line.          stdout : `<op> => <observation>` per line, flushed per line.
 * A blank line resets everything (maps, clock, trace) and is echoed; `#` lines are ignored.
 *
 *   clock <ns> [step]                 => ok            bpf_ktime_get_ns() returns ns, then ns += step
 *   rand <seed>                       => ok            seeds bpf_get_prandom_u32()
 *   trace on|off                      => ok            append the map accesses of each run to its observation
 *   decl <map> <type> <ks> <vs> <max> => ok            declare a map's geometry before the program used it
 *   put <map> <hexkey> <hexval>       => ok | err <errno-name>
 *   del <map> <hexkey>                => ok | err <errno-name>
 *   get <map> <hexkey>                => <hexval> | none
 *   dump <map>                        => <k>=<v>,<k>=<v>… (sorted by key bytes) | -
 *   maps                              => <name>:<type>:<ks>:<vs>:<max>:<count>,… | -
 *   clear                             => ok            drop all map entries
 *   run tc|xdp <entry> <hexframe|-> [len=N] [mark=N] [priority=N] [ifindex=N] [ingress_ifindex=N]
 *                                     [protocol=N] [vlan_tci=N] [vlan_present=N] [rx_queue=N]
 *        => <ret> <same|hexframe-after> [prio=N] [mark=N] [redir=N] [ev=N] [ops=…]
 *         | FAULT segv off=<byte offset from frame start> | FAULT segv addr=<hex>
 *         | FAULT asan | FAULT ubsan | FAULT mapsize … | FAULT noentry
 *   runn <count> <gap_ns> tc|xdp <entry> <hexframe|-> [k=v…]
 *        => <ret>x<n> <ret>x<n> …      count runs; the clock is advanced by gap BEFORE each run;
 *                                      run-length encoded return codes (or `F` for a fault)
 *   events                            => <map>:<hex>,… | -      events emitted by the last run
 */
#define _GNU_SOURCE
#include <ctype.h>
#include <dlfcn.h>
#include <errno.h>
#include <setjmp.h>
#include <signal.h>
#include <stdio.h>
#include <stdlib.h>
#include <string.h>
#include <unistd.h>

#include "shim.h"

/* ---- sanitizer hooks ---------------------------------------------------------------------------- */
static volatile int asan_hits, ubsan_hits;

const char *__asan_default_options(void)
{
	return "halt_on_error=0:detect_leaks=0:handle_segv=0:handle_sigbus=0:allow_user_segv_handler=1:"
	       "detect_stack_use_after_return=0:abort_on_error=0";
}
const char *__ubsan_default_options(void) { return "halt_on_error=0:print_stacktrace=0"; }
void __asan_on_error(void) { asan_hits++; }
void __ubsan_on_report(void) { ubsan_hits++; }

/* ---- fault capture ------------------------------------------------------------------------------ */
static sigjmp_buf fault_jmp;
static volatile sig_atomic_t in_run;
static void *volatile fault_addr;

static void on_fault(int sig, siginfo_t *si, void *uc)
{
	(void)uc;
	if (!in_run) {
		signal(sig, SIG_DFL);
		raise(sig);
		return;
	}
	fault_addr = si->si_addr;
	siglongjmp(fault_jmp, 1);
}

/* ---- small utilities ---------------------------------------------------------------------------- */
static int hexval(int c)
{
	if (c >= '0' && c <= '9') return c - '0';
	if (c >= 'a' && c <= 'f') return c - 'a' + 10;
	if (c >= 'A' && c <= 'F') return c - 'A' + 10;
	return -1;
}

/* "-" = empty; returns length or -1 */
static long parse_hex(const char *s, unsigned char **out)
{
	if (!strcmp(s, "-")) {
		*out = malloc(1);
		return 0;
	}
	size_t n = strlen(s);
	if (n % 2)
		return -1;
	unsigned char *b = malloc(n / 2 + 1);
	for (size_t i = 0; i < n / 2; i++) {
		int h = hexval(s[2 * i]), l = hexval(s[2 * i + 1]);
		if (h < 0 || l < 0) {
			free(b);
			return -1;
		}
		b[i] = (unsigned char)(h * 16 + l);
	}
	*out = b;
	return (long)(n / 2);
}

static void put_hex(FILE *f, const unsigned char *b, size_t n)
{
	static const char d[] = "0123456789abcdef";
	if (!n) {
		fputc('-', f);
		return;
	}
	for (size_t i = 0; i < n; i++) {
		fputc(d[b[i] >> 4], f);
		fputc(d[b[i] & 15], f);
	}
}

static const char *errname(long rc)
{
	switch (-rc) {
	case 0: return "ok";
	case ENOENT: return "ENOENT";
	case EEXIST: return "EEXIST";
	case E2BIG: return "E2BIG";
	case EINVAL: return "EINVAL";
	case ENOSPC: return "ENOSPC";
	default: return "EOTHER";
	}
}

#define MAXTOK 24
static int split(char *line, char **tok)
{
	int n = 0;
	char *p = line;
	while (*p && n < MAXTOK) {
		while (*p == ' ' || *p == '\t') p++;
		if (!*p) break;
		tok[n++] = p;
		while (*p && *p != ' ' && *p != '\t') p++;
		if (*p) *p++ = 0;
	}
	return n;
}

/* ---- running a program -------------------------------------------------------------------------- */
struct runopts {
	int is_xdp;
	int (*fn)(void *);
	unsigned char *frame;
	long flen;
	int have_len;
	unsigned long len, mark, priority, ifindex, ingress_ifindex, protocol, vlan_tci, vlan_present, rx_queue;
	int have_protocol;
};

struct runres {
	int fault;              /* 0 none, 1 segv, 2 asan, 3 ubsan, 4 mapsize */
	long fault_off;
	int fault_in_pkt;
	void *fault_at;
	int ret;
	unsigned char *after;   /* pointer into the arena */
	long after_len;
	unsigned long mark, priority;
};

static int parse_runopts(char **tok, int n, struct runopts *o, char *err, size_t errn)
{
	memset(o, 0, sizeof *o);
	if (n < 3) {
		snprintf(err, errn, "badop");
		return -1;
	}
	if (!strcmp(tok[0], "xdp"))
		o->is_xdp = 1;
	else if (strcmp(tok[0], "tc")) {
		snprintf(err, errn, "badop");
		return -1;
	}
	o->fn = (int (*)(void *))dlsym(RTLD_DEFAULT, tok[1]);
	if (!o->fn) {
		snprintf(err, errn, "FAULT noentry");
		return -1;
	}
	o->flen = parse_hex(tok[2], &o->frame);
	if (o->flen < 0 || o->flen > SHIM_PKT_MAX) {
		snprintf(err, errn, "badop");
		return -1;
	}
	o->ifindex = 1;
	o->ingress_ifindex = 1;
	for (int i = 3; i < n; i++) {
		char *eq = strchr(tok[i], '=');
		if (!eq) {
			snprintf(err, errn, "badop");
			return -1;
		}
		*eq = 0;
		unsigned long v = strtoul(eq + 1, NULL, 0);
		if (!strcmp(tok[i], "len")) { o->len = v; o->have_len = 1; }
		else if (!strcmp(tok[i], "mark")) o->mark = v;
		else if (!strcmp(tok[i], "priority")) o->priority = v;
		else if (!strcmp(tok[i], "ifindex")) o->ifindex = v;
		else if (!strcmp(tok[i], "ingress_ifindex")) o->ingress_ifindex = v;
		else if (!strcmp(tok[i], "protocol")) { o->protocol = v; o->have_protocol = 1; }
		else if (!strcmp(tok[i], "vlan_tci")) o->vlan_tci = v;
		else if (!strcmp(tok[i], "vlan_present")) o->vlan_present = v;
		else if (!strcmp(tok[i], "rx_queue")) o->rx_queue = v;
		else {
			snprintf(err, errn, "badop");
			return -1;
		}
	}
	return 0;
}

static void run_once(const struct runopts *o, struct runres *r)
{
	/* contexts live on the heap so that ASan guards them as well */
	struct __sk_buff *skb = NULL;
	struct xdp_md *xdp = NULL;
	void *ctx;
	memset(r, 0, sizeof *r);
	unsigned char *data = shim_pkt_place(o->frame, (size_t)o->flen);
	shim_events_reset();
	shim_map_error[0] = 0;
	asan_hits = ubsan_hits = 0;
	if (o->is_xdp) {
		xdp = calloc(1, sizeof *xdp);
		xdp->data = (__u32)(uintptr_t)data;
		xdp->data_meta = xdp->data;
		xdp->data_end = (__u32)(uintptr_t)(data + o->flen);
		xdp->ingress_ifindex = (__u32)o->ingress_ifindex;
		xdp->rx_queue_index = (__u32)o->rx_queue;
		ctx = xdp;
	} else {
		skb = calloc(1, sizeof *skb);
		skb->data = (__u32)(uintptr_t)data;
		skb->data_end = (__u32)(uintptr_t)(data + o->flen);
		skb->len = o->have_len ? (__u32)o->len : (__u32)o->flen;
		skb->mark = (__u32)o->mark;
		skb->priority = (__u32)o->priority;
		skb->ifindex = (__u32)o->ifindex;
		skb->ingress_ifindex = (__u32)o->ingress_ifindex;
		skb->vlan_tci = (__u32)o->vlan_tci;
		skb->vlan_present = (__u32)o->vlan_present;
		if (o->have_protocol)
			skb->protocol = (__u32)o->protocol;
		else if (o->flen >= 14)
			skb->protocol = (__u32)(data[12] | (data[13] << 8));   /* network order, as the kernel stores it */
		ctx = skb;
	}
	if (sigsetjmp(fault_jmp, 1) == 0) {
		in_run = 1;
		r->ret = o->fn(ctx);
		in_run = 0;
	} else {
		in_run = 0;
		r->fault = 1;
		r->fault_at = fault_addr;
		r->fault_in_pkt = shim_pkt_contains_fault(fault_addr, &r->fault_off);
	}
	if (!r->fault) {
		if (asan_hits) r->fault = 2;
		else if (ubsan_hits) r->fault = 3;
		else if (shim_map_error[0]) r->fault = 4;
	}
	if (o->is_xdp) {
		r->after = (unsigned char *)(uintptr_t)xdp->data;
		r->after_len = (long)xdp->data_end - (long)xdp->data;
	} else {
		r->after = (unsigned char *)(uintptr_t)skb->data;
		r->after_len = (long)skb->data_end - (long)skb->data;
		r->mark = skb->mark;
		r->priority = skb->priority;
	}
	free(skb);
	free(xdp);
}

static void print_fault(FILE *f, const struct runres *r)
{
	switch (r->fault) {
	case 1:
		if (r->fault_in_pkt)
			fprintf(f, "FAULT segv off=%ld", r->fault_off);
		else
			fprintf(f, "FAULT segv addr=%p", r->fault_at);
		break;
	case 2: fprintf(f, "FAULT asan"); break;
	case 3: fprintf(f, "FAULT ubsan"); break;
	case 4: fprintf(f, "FAULT %s", shim_map_error); break;
	}
}

static int cmp_entry(const void *a, const void *b, void *arg)
{
	const struct shim_entry *const *x = a, *const *y = b;
	return memcmp((*x)->key, (*y)->key, *(unsigned *)arg);
}

int main(void)
{
	struct sigaction sa;
	memset(&sa, 0, sizeof sa);
	sa.sa_sigaction = on_fault;
	sa.sa_flags = SA_SIGINFO | SA_NODEFER;
	sigaction(SIGSEGV, &sa, NULL);
	sigaction(SIGBUS, &sa, NULL);
	setvbuf(stdout, NULL, _IOFBF, 1 << 16);

	char *line = NULL;
	size_t cap = 0;
	ssize_t got;
	FILE *out = stdout;
	while ((got = getline(&line, &cap, stdin)) >= 0) {
		while (got > 0 && (line[got - 1] == '\n' || line[got - 1] == '\r'))
			line[--got] = 0;
		if (line[0] == '#')
			continue;
		if (!line[0]) {
			shim_maps_clear();
			shim_clock_set(0, 0);
			shim_trace_enable(0);
			shim_rand_seed(0);
			fputc('\n', out);
			fflush(out);
			continue;
		}
		char *copy = strdup(line);
		char *tok[MAXTOK];
		int n = split(copy, tok);
		/* long frames are not echoed in full: the caller knows what it sent */
		if (got > 400)
			fprintf(out, "%.*s… => ", 200, line);
		else
			fprintf(out, "%s => ", line);
		if (n == 0) {
			fprintf(out, "badop");
		} else if (!strcmp(tok[0], "clock") && (n == 2 || n == 3)) {
			shim_clock_set(strtoull(tok[1], NULL, 0), n == 3 ? strtoull(tok[2], NULL, 0) : 0);
			fprintf(out, "ok");
		} else if (!strcmp(tok[0], "rand") && n == 2) {
			shim_rand_seed(strtoull(tok[1], NULL, 0));
			fprintf(out, "ok");
		} else if (!strcmp(tok[0], "trace") && n == 2) {
			shim_trace_enable(!strcmp(tok[1], "on"));
			fprintf(out, "ok");
		} else if (!strcmp(tok[0], "clear") && n == 1) {
			shim_maps_clear();
			fprintf(out, "ok");
		} else if (!strcmp(tok[0], "decl") && n == 6) {
			shim_map_error[0] = 0;
			shim_map_desc(tok[1], NULL, (unsigned)strtoul(tok[2], NULL, 0), (unsigned)strtoul(tok[3], NULL, 0),
				      (unsigned)strtoul(tok[4], NULL, 0), (unsigned)strtoul(tok[5], NULL, 0));
			if (shim_map_error[0])
				fprintf(out, "err %s", shim_map_error);
			else
				fprintf(out, "ok");
			shim_map_error[0] = 0;
		} else if ((!strcmp(tok[0], "put") && n == 4) || ((!strcmp(tok[0], "del") || !strcmp(tok[0], "get")) && n == 3)) {
			unsigned char *k = NULL, *v = NULL;
			long kl = parse_hex(tok[2], &k), vl = n == 4 ? parse_hex(tok[3], &v) : 0;
			struct shim_map *m = shim_map_by_name(tok[1]);
			if (kl < 0 || vl < 0) {
				fprintf(out, "badop");
			} else if (tok[0][0] == 'p') {
				if (!m)
					m = shim_map_desc(tok[1], NULL, SHIM_TYPE_UNKNOWN, (unsigned)kl, (unsigned)vl, 0);
				if (m->key_size != (unsigned)kl || m->value_size != (unsigned)vl)
					fprintf(out, "err size key=%ld/%u value=%ld/%u", kl, m->key_size, vl, m->value_size);
				else {
					int t = 0;
					long rc = shim_map_update(m, k, v, BPF_ANY);
					(void)t;
					fprintf(out, rc ? "err %s" : "%s", errname(rc));
				}
			} else if (!m || m->key_size != (unsigned)kl) {
				fprintf(out, tok[0][0] == 'g' ? "none" : "err ENOENT");
			} else if (tok[0][0] == 'd') {
				long rc = shim_map_delete(m, k);
				fprintf(out, rc ? "err %s" : "%s", errname(rc));
			} else {
				unsigned char *val = shim_map_get_exact(m, k);
				if (val)
					put_hex(out, val, m->value_size);
				else
					fprintf(out, "none");
			}
			shim_trace_take();
			free(k);
			free(v);
		} else if (!strcmp(tok[0], "dump") && n == 2) {
			struct shim_map *m = shim_map_by_name(tok[1]);
			if (!m || !m->count) {
				fprintf(out, "-");
			} else {
				struct shim_entry **es = malloc(sizeof *es * m->count);
				unsigned c = 0;
				for (struct shim_entry *e = m->entries; e; e = e->next)
					es[c++] = e;
				qsort_r(es, c, sizeof *es, cmp_entry, &m->key_size);
				for (unsigned i = 0; i < c; i++) {
					if (i) fputc(',', out);
					put_hex(out, es[i]->key, m->key_size);
					fputc('=', out);
					put_hex(out, es[i]->value, m->value_size);
				}
				free(es);
			}
		} else if (!strcmp(tok[0], "maps") && n == 1) {
			int first = 1;
			for (struct shim_map *m = shim_map_first(); m; m = m->next) {
				fprintf(out, "%s%s:%d:%u:%u:%u:%u", first ? "" : ",", m->name,
					m->type == SHIM_TYPE_UNKNOWN ? -1 : (int)m->type, m->key_size, m->value_size,
					m->max_entries, m->count);
				first = 0;
			}
			if (first) fputc('-', out);
		} else if (!strcmp(tok[0], "events") && n == 1) {
			unsigned c = shim_event_count < 16 ? shim_event_count : 16;
			if (!c) fputc('-', out);
			for (unsigned i = 0; i < c; i++) {
				fprintf(out, "%s%s:", i ? "," : "", shim_events[i].map);
				put_hex(out, shim_events[i].data, shim_events[i].size);
			}
		} else if (!strcmp(tok[0], "run")) {
			struct runopts o;
			struct runres r;
			char err[64];
			if (parse_runopts(tok + 1, n - 1, &o, err, sizeof err)) {
				fprintf(out, "%s", err);
			} else {
				run_once(&o, &r);
				if (r.fault) {
					print_fault(out, &r);
				} else {
					fprintf(out, "%d ", r.ret);
					if (r.after_len == o.flen && (o.flen == 0 || !memcmp(r.after, o.frame, (size_t)o.flen)))
						fprintf(out, "same");
					else if (r.after_len < 0 || r.after_len > SHIM_PKT_MAX)
						fprintf(out, "badlen=%ld", r.after_len);
					else
						put_hex(out, r.after, (size_t)r.after_len);
					if (!o.is_xdp && r.priority != o.priority) fprintf(out, " prio=%lu", r.priority);
					if (!o.is_xdp && r.mark != o.mark) fprintf(out, " mark=%lu", r.mark);
					if (shim_redirect_ifindex >= 0) fprintf(out, " redir=%ld", shim_redirect_ifindex);
					if (shim_event_count) fprintf(out, " ev=%u", shim_event_count);
				}
				const char *t = shim_trace_take();
				if (t[0]) fprintf(out, " ops=%s", t);
			}
			free(o.frame);
		} else if (!strcmp(tok[0], "runn") && n >= 6) {
			struct runopts o;
			struct runres r;
			char err[64];
			unsigned long count = strtoul(tok[1], NULL, 0);
			unsigned long long gap = strtoull(tok[2], NULL, 0);
			if (parse_runopts(tok + 3, n - 3, &o, err, sizeof err)) {
				fprintf(out, "%s", err);
			} else {
				long cur = 0, curn = 0;
				int curf = 0, first = 1;
				for (unsigned long i = 0; i < count; i++) {
					shim_clock_set(shim_clock_get() + gap, 0);
					run_once(&o, &r);
					shim_trace_take();
					if (curn && (curf != (r.fault != 0) || (!curf && cur != r.ret))) {
						if (curf) fprintf(out, "%sFx%ld", first ? "" : " ", curn);
						else fprintf(out, "%s%ldx%ld", first ? "" : " ", cur, curn);
						first = 0;
						curn = 0;
					}
					curf = r.fault != 0;
					cur = r.ret;
					curn++;
				}
				if (curn) {
					if (curf) fprintf(out, "%sFx%ld", first ? "" : " ", curn);
					else fprintf(out, "%s%ldx%ld", first ? "" : " ", cur, curn);
				} else if (first) {
					fputc('-', out);
				}
			}
			free(o.frame);
		} else {
			fprintf(out, "badop");
		}
		fputc('\n', out);
		fflush(out);
		free(copy);
	}
	free(line);
	return 0;
}
