"""
Helpers for checks that run the natively compiled /repo/bpf programs (see /verif/cshim/README.md).

    import cshim
    path = cshim.build_runner(ctx, "antispoof")        # clang build from /repo's WORKING TREE into ctx.scratch
    comp = V.Component("antispoof", exec_env={cshim.env_name("antispoof"): path}, ...)

A Go harness (harness/cmd/<comp>) finds the runner through the environment variable
CSHIM_RUNNER_<PROG> (upper case) and talks to it with bngverif/hx.CRunner; python code can use
cshim.Runner directly.
"""
import os
import subprocess

VERIF = os.path.dirname(os.path.dirname(os.path.abspath(__file__)))
CSHIM = os.path.join(VERIF, "cshim")
PROGS = ["qos_ratelimit", "antispoof", "dhcp_fastpath", "nat44"]


def env_name(prog):
    return "CSHIM_RUNNER_" + prog.upper()


def build(outdir, progs=None, repo=None):
    """build runners into outdir; returns (rc, log, {prog: path})"""
    env = dict(os.environ)
    if repo:
        env["VERIF_REPO"] = repo
    progs = list(progs or PROGS)
    p = subprocess.run(["sh", os.path.join(CSHIM, "build.sh"), outdir] + progs, env=env,
                       stdout=subprocess.PIPE, stderr=subprocess.STDOUT, text=True)
    return p.returncode, p.stdout, {x: os.path.join(outdir, "runprog-" + x) for x in progs}


def build_runner(ctx, prog):
    """build one runner from the working tree into the check's scratch dir; on failure the check is
    marked broken (a C program that no longer compiles is a broken obligation) and None is returned"""
    out = os.path.join(ctx.scratch, "cshim")
    rc, log, paths = build(out, [prog], os.environ.get("VERIF_REPO"))
    if rc != 0 or not os.path.exists(paths[prog]):
        ctx.broken.append(("harness", "cshim build of bpf/%s.c failed: %s" % (prog, log[-1500:])))
        return None
    return paths[prog]


class Runner:
    """a running runprog-<prog>; do(op) -> observation string"""

    def __init__(self, path):
        self.p = subprocess.Popen([path], stdin=subprocess.PIPE, stdout=subprocess.PIPE,
                                  stderr=subprocess.DEVNULL, text=True, bufsize=1)

    def do(self, op):
        if self.p.poll() is not None:
            return "FAULT runner-dead"
        self.p.stdin.write(op + "\n")
        self.p.stdin.flush()
        if not op.strip():
            self.p.stdout.readline()
            return ""
        line = self.p.stdout.readline()
        if not line:
            return "FAULT runner-dead"
        return line.rstrip("\n").split(" => ", 1)[-1]

    def close(self):
        try:
            self.p.stdin.close()
            self.p.wait(timeout=10)
        except Exception:
            self.p.kill()
