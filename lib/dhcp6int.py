"""Component `dhcp6int`: the DHCPv6 server in INTEGRATED-ALLOCATOR mode (ServerConfig.AddressAllocator /
PrefixAllocator = real allocator.PoolAllocator objects over a fault-injecting allocation store), shared by the checks
C02 (binding clauses), C05 and C16 (leak clause: a release answered Success must leave nothing allocated that no lease
records).

    import dhcp6int
    COMPS += dhcp6int.comps(["leak"])      # the monitors that belong to the property
    SPEC += dhcp6int.SPEC
    ASSUME += dhcp6int.ASSUME

Harness: harness/cmd/dhcp6 (test binary, synctest) with `gen -only int`; driver Bng.Drv.Dhcp6Int; model Bng.Dhcp6Int;
theorems Bng.Spec.C05Dhcp6Int; corpus corpus/dhcp6int/."""
import verif as V

SPEC = ["Bng.Spec.C05Dhcp6Int"]
ALL_MONITORS = ["leak", "double-binding", "foreign-ack", "range"]


def comps(monitors):
    return [V.Component("dhcp6int", harness="dhcp6", drv="dhcp6int", monitors=list(monitors), kind="gotest",
                        gen_args=["-only", "int"])]


LEVEL = ("dhcp6int: over the Lean model of the DHCPv6 server in integrated-allocator mode (two PoolAllocator models with "
         "failing store calls as switches) it is a theorem for ALL message and fault histories that every value a lease "
         "records is the allocator's allocation of that client (lease_backed_by_allocator), that a RELEASE whose allocator "
         "release fails keeps the binding and answers UnspecFail (release_failure_keeps_binding), that a RELEASE answered "
         "Success leaves nothing of the lease allocated (release_success_frees) and, for histories without Advertise-only "
         "allocations (recorded finding D8, witness D8_integrated_witness), that every allocation is recorded by a lease "
         "(no_allocation_without_lease_partial); tied to the real server + real PoolAllocator + MemoryAllocationStore by "
         "differential execution, the monitor judges the real replies and table snapshots.")
ASSUME = [
    "dhcp6int: the two pools are disjoint (the shared store's by-IP conflict index never refuses a save); the store fails "
    "only where the harness says so (RemoveAllocation per pool, SaveAllocation) and then changes nothing; pools of 1-4 "
    "addresses / 2-4 prefixes, up to 6 clients; the monitor is validated by the runs only (silent on the unchanged tree "
    "outside D8, fires on the tree before fix G7)",
]
