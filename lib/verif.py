"""
Shared machinery of /verif/check  (python3, standard library only).

One run of one check (see DESIGN.md §2.1):
  1. regenerate lean/Bng/Gen/* from /repo's working tree (translators, if the property has any)
  2. re-check the property's theorems (lake build Bng.Spec.Cxx), audit their axioms, grep for escapes
  3. build the Go harness against /repo's working tree with  -tags verif
  4. correspondence + search: run corpus and generated operation sequences on the REAL code, replay
     the traces on the Lean model with `bngdrv`, evaluate the property monitors on the
     implementation's observations
  5. verdict, evidence file, replay file
"""
import fcntl
import hashlib
import json
import os
import re
import shutil
import subprocess
import sys
import time
import traceback

VERIF = os.path.dirname(os.path.dirname(os.path.abspath(__file__)))
REPO = os.environ.get("VERIF_REPO", "/repo")
LEAN = os.path.join(VERIF, "lean")
HARNESS = os.path.join(VERIF, "harness")
BNGDRV = os.path.join(LEAN, ".lake", "build", "bin", "bngdrv")
ALLOWED_AXIOMS = {"propext", "Classical.choice", "Quot.sound"}
FORBIDDEN = re.compile(r"\bsorry\b|\badmit\b|^\s*axiom\s|native_decide|bv_decide|implemented_by|\bunsafe\s|maxHeartbeats\s+0"
                       r"|@\[\s*extern|skipKernelTC|\+native|\bsorryAx\b")
# in the executable models the kernel must see what the compiled driver runs: no opaque / partial definitions there
FORBIDDEN_MODEL = re.compile(r"^\s*(?:private\s+|protected\s+)?(?:opaque|partial\s+def)\b")

TRUSTED_BASE = [
    "Lean 4.33.0 kernel; axioms allowed: propext, Classical.choice, Quot.sound (audited per theorem with collectAxioms)",
    "no sorry/admit/own axioms/native_decide/bv_decide/implemented_by/unsafe in lean/Bng (grep on every run)",
    "hand-written Lean model of the anchored Go/C code, tied to the code by the correspondence run of this check",
    "the Go harness (drives the real packages in-process) and bngdrv's parser/printer",
    "the generators' reach bounds what the correspondence can see",
]


def env_go():
    e = dict(os.environ)
    e["GOFLAGS"] = "-mod=mod"
    e["GOPROXY"] = "off"
    e.pop("GOSUMDB", None) if e.get("GOSUMDB") == "off" else None
    return e


class Lock:
    """serialises lake builds and Gen regeneration between concurrently running checks; re-entrant within one
    process, so that one run can hold `lean` from the regeneration of the Gen tables until its theorems are checked and
    its driver executables are built and copied away (another run - possibly of another tree - cannot swap the tables,
    the .olean files or the executables in between)"""
    _held = {}

    def __init__(self, name="lean"):
        self.name = name
        self.path = os.path.join(VERIF, ".%s.lock" % name)

    def __enter__(self):
        h = Lock._held.get(self.name)
        if h:
            h[1] += 1
            return self
        f = open(self.path, "w")
        fcntl.flock(f, fcntl.LOCK_EX)
        Lock._held[self.name] = [f, 1]
        return self

    def __exit__(self, *a):
        h = Lock._held[self.name]
        h[1] -= 1
        if h[1] == 0:
            fcntl.flock(h[0], fcntl.LOCK_UN)
            h[0].close()
            del Lock._held[self.name]


def sh(cmd, cwd=None, env=None, timeout=7200, stdin=None):
    """run a command; a timeout is reported as exit code 124 (never an exception)"""
    try:
        p = subprocess.run(cmd, cwd=cwd, env=env, timeout=timeout, input=stdin,
                           stdout=subprocess.PIPE, stderr=subprocess.STDOUT, text=True, errors="replace")
    except subprocess.TimeoutExpired as e:
        out = e.stdout if isinstance(e.stdout, str) else (e.stdout or b"").decode("utf-8", "replace")
        return 124, out + "\n[timeout after %ss: %s]" % (timeout, " ".join(map(str, cmd))[:200])
    return p.returncode, p.stdout


def repo_state():
    """which tree this run is about (goes into the evidence)"""
    rc, head = sh(["git", "-C", REPO, "rev-parse", "HEAD"], timeout=60)
    rc2, dirty = sh(["git", "-C", REPO, "status", "--porcelain", "--untracked-files=no"], timeout=120)
    return {"repo": os.path.realpath(REPO), "repo_head": head.strip() if rc == 0 else "?",
            "repo_dirty": bool(dirty.strip()) if rc2 == 0 else None}


def sweep_scratch(base):
    """remove scratch directories of runs whose process is gone (killed runs leak them)"""
    try:
        for fn in os.listdir(base):
            m = re.fullmatch(r"bngverif-\w+-(\d+)", fn)
            if m and not os.path.exists("/proc/%s" % m.group(1)):
                shutil.rmtree(os.path.join(base, fn), ignore_errors=True)
    except OSError:
        pass


class Ctx:
    def __init__(self, prop, tier, seed):
        self.prop = prop
        self.tier = tier
        self.seed = seed
        self.t0 = time.time()
        base = os.environ.get("XDG_CACHE_HOME") or "/var/tmp"
        sweep_scratch(base)
        self.scratch = os.path.join(base, "bngverif-%s-%d" % (prop, os.getpid()))
        shutil.rmtree(self.scratch, ignore_errors=True)     # a recycled pid must not inherit a stale harness copy
        os.makedirs(self.scratch)
        # a run against a scratch worktree (VERIF_REPO) must not overwrite the evidence / replays of the real tree
        self.real_tree = os.path.realpath(REPO) == "/repo"
        sub = "" if self.real_tree else "scratch-%d" % os.getpid()
        self.evidence_dir = os.path.join(VERIF, "evidence", sub) if sub else os.path.join(VERIF, "evidence")
        self.replay_dir = os.path.join(VERIF, "replays", sub) if sub else os.path.join(VERIF, "replays")
        self.foreign = {}         # verdicts of monitors that belong to another property's check: monitor -> count
        self.suppressed = {}      # known-finding clause -> number of verdicts it accounted for
        self.escalated = False
        self.seeds_run = []
        self.exes = {}            # driver target -> private copy of the executable
        self.violations = []      # (replay_path, suffix)
        self.known_hits = {}      # finding id -> what
        self.proof = {"obligations": 0, "discharged": 0, "theorems": [], "errors": []}
        self.corr = {"seqs": 0, "lines": 0, "diffs": 0, "viols": 0, "components": {}, "samples": [],
                     "distinct": set(), "dist": {}}
        self.notes = []
        self.broken = []          # broken obligations / correspondence: (kind, detail)
        self.known = load_known(prop)
        self._built_bins = set()

    def cleanup(self):
        shutil.rmtree(self.scratch, ignore_errors=True)

    # ---------------------------------------------------------------- Lean side
    def lean_check(self, spec_modules, extra_modules=()):
        """re-elaborate the Spec module(s), audit axioms; returns True if every obligation is discharged"""
        if isinstance(spec_modules, str):
            spec_modules = [spec_modules]
        with Lock("lean"):
            for spec_module in spec_modules:
                rel = spec_module.replace(".", "/")
                for ext in (".olean", ".ilean"):
                    try:
                        os.remove(os.path.join(LEAN, ".lake/build/lib/lean", rel + ext))
                    except OSError:
                        pass
            rc, out = sh(["lake", "build", "Bng.Audit"] + list(spec_modules) + list(extra_modules), cwd=LEAN)
            if rc != 0:
                errs = [l for l in out.splitlines() if l.startswith("error")]
                self.proof["errors"] += errs[:20] or [out[-2000:]]
                self.broken.append(("proof", "lake build %s failed: %s" % (" ".join(spec_modules), "; ".join(errs[:3]))))
                return False
            os.makedirs(os.path.join(LEAN, "audit"), exist_ok=True)
            audit = os.path.join(LEAN, "audit", "Audit%s.lean" % self.prop) if self.real_tree else \
                os.path.join(self.scratch, "audit.lean")
            self.audit_file = audit
            with open(audit, "w") as f:
                f.write("".join("import %s\n" % m for m in spec_modules) + "import Bng.Audit\n" +
                        "".join("#audit_module %s\n" % m for m in spec_modules))
            rc, out = sh(["lake", "env", "lean", audit], cwd=LEAN)
        ok = rc == 0
        for line in out.splitlines():
            m = re.match(r"(?:.*info: )?THEOREM (\S+) AXIOMS (\S+)", line)
            if m:
                name, axs = m.group(1), m.group(2)
                axl = [] if axs == "-" else axs.split(",")
                bad = [a for a in axl if a not in ALLOWED_AXIOMS]
                self.proof["obligations"] += 1
                if bad:
                    ok = False
                    self.broken.append(("proof", "%s depends on %s" % (name, ",".join(bad))))
                else:
                    self.proof["discharged"] += 1
                self.proof["theorems"].append({"theorem": name, "axioms": axl})
            elif "AXIOMDECL" in line:
                ok = False
                self.broken.append(("proof", "axiom declared: " + line.strip()))
        if rc != 0:
            self.broken.append(("proof", "axiom audit failed: " + out[-500:]))
        # escapes anywhere in the project sources (lean/Bng and the executable roots lean/*.lean)
        srcs = [os.path.join(LEAN, fn) for fn in os.listdir(LEAN) if fn.endswith(".lean")]
        for root, _, files in os.walk(os.path.join(LEAN, "Bng")):
            srcs += [os.path.join(root, fn) for fn in files if fn.endswith(".lean") and fn != "Audit.lean"]
        for p in sorted(srcs):
            in_model = os.sep + "Model" + os.sep in p
            for n, l in enumerate(strip_comments(open(p, errors="replace").read()).splitlines(), 1):
                if FORBIDDEN.search(l) or (in_model and FORBIDDEN_MODEL.search(l)):
                    ok = False
                    self.broken.append(("proof", "forbidden construct in %s:%d: %s" % (p, n, l.strip())))
        # the obligation set is pinned: a theorem that was there when the set was recorded must still be there
        exp = os.path.join(VERIF, "checks", "expect", self.prop + ".txt")
        if os.path.exists(exp):
            have = {t["theorem"] for t in self.proof["theorems"]}
            gone = [t for t in open(exp).read().split() if t not in have]
            if gone and rc == 0:
                ok = False
                self.broken.append(("proof", "theorems of the pinned obligation set are gone: " + ", ".join(gone[:12])))
        else:
            self.notes.append("no pinned obligation set (checks/expect/%s.txt)" % self.prop)
        if self.proof["obligations"] == 0:
            ok = False
            self.broken.append(("proof", "no theorem found in " + " ".join(spec_modules)))
        return ok

    def leanchecker(self, spec_modules):
        if isinstance(spec_modules, str):
            spec_modules = [spec_modules]
        with Lock("lean"):
            rc, out = sh(["lake", "env", "leanchecker"] + list(spec_modules), cwd=LEAN)
        if rc != 0:
            self.broken.append(("proof", "leanchecker rejected %s: %s" % (spec_modules, out[-500:])))
        self.notes.append("leanchecker %s rc=%d" % (" ".join(spec_modules), rc))
        return rc == 0

    # ---------------------------------------------------------------- implementation side
    def harness_dir(self):
        """the harness module; when VERIF_REPO points somewhere else than /repo (a scratch worktree used to try a
        candidate change) a private copy with the `replace` line rewritten is used"""
        if os.path.realpath(REPO) == "/repo":
            return HARNESS
        d = os.path.join(self.scratch, "harness")
        if not os.path.isdir(d):
            shutil.copytree(HARNESS, d)
            gm = os.path.join(d, "go.mod")
            txt = open(gm).read().replace("=> /repo", "=> " + os.path.realpath(REPO))
            open(gm, "w").write(txt)
        return d

    def go_build(self, comp, kind="main"):
        """build harness/cmd/<comp> against the repository's working tree with hooks on
        (kind="gotest": a test binary, for harnesses that need testing/synctest)"""
        out = os.path.join(self.scratch, "hx-" + comp)
        hd = self.harness_dir()
        with Lock("gomod"):
            try:
                shutil.copy(os.path.join(REPO, "go.sum"), os.path.join(hd, "go.sum"))
            except OSError:
                pass
            if kind == "gotest":
                cmd = ["go", "test", "-c", "-tags", "verif", "-o", out, "./cmd/" + comp]
            else:
                cmd = ["go", "build", "-tags", "verif", "-o", out, "./cmd/" + comp]
            rc, log = sh(cmd, cwd=hd, env=env_go())
        if rc != 0:
            self.broken.append(("harness", "go build ./cmd/%s failed: %s" % (comp, log[-1500:])))
            return None
        return out

    def build_driver(self, drv_bin):
        """build the driver executable (under the lean lock) and keep a private copy: what this run replays with cannot
        be relinked by another run"""
        if drv_bin in self.exes:
            return self.exes[drv_bin]
        exe = os.path.join(LEAN, ".lake", "build", "bin", drv_bin)
        with Lock("lean"):
            rc, out = sh(["lake", "build", drv_bin], cwd=LEAN)
            if rc != 0:
                self.broken.append(("driver", "lake build %s failed: %s" % (drv_bin, out[-800:])))
                self.exes[drv_bin] = None
                return None
            mine = os.path.join(self.scratch, "exe-" + drv_bin)
            try:
                shutil.copy2(exe, mine)
            except OSError as e:
                self.broken.append(("driver", "driver executable %s missing: %s" % (exe, e)))
                mine = None
        self.exes[drv_bin] = mine
        return mine

    def drv(self, comp_drv, trace_path, drv_bin="bngdrv"):
        exe = self.build_driver(drv_bin)
        if exe is None:
            return [], 127, "driver executable %s not built" % drv_bin
        try:
            with open(trace_path, "rb") as f:
                p = subprocess.run([exe, comp_drv], stdin=f, stdout=subprocess.PIPE, stderr=subprocess.PIPE,
                                   text=True, errors="replace", timeout=7200)
        except subprocess.TimeoutExpired:
            return [], 124, "driver %s %s timed out" % (drv_bin, comp_drv)
        return p.stdout.splitlines(), p.returncode, p.stderr



def _driver_registry():
    """component name -> (import module, Lean expression), parsed from lean/Main.lean and the Drv modules"""
    main = open(os.path.join(LEAN, "Main.lean")).read()
    ns2mod = {}
    for fn in os.listdir(os.path.join(LEAN, "Bng", "Drv")):
        if fn.endswith(".lean"):
            for m in re.finditer(r"^namespace Bng\.Drv\.(\w+)", open(os.path.join(LEAN, "Bng", "Drv", fn)).read(), flags=re.M):
                ns2mod[m.group(1)] = "Bng.Drv." + fn[:-5]
    reg = {}
    for m in re.finditer(r'\("([\w-]+)",\s*([^\n]+?)\)\s*,?\s*$', main, flags=re.M):
        name, expr = m.group(1), m.group(2).strip()
        ns = expr.split(".")[0]
        if ns in ns2mod:
            reg[name] = (ns2mod[ns], expr)
    return reg


def ensure_driver(prop, comps):
    """every property replays its traces with its OWN executable `drv-cNN`, which links only the driver
    modules of that property's components: a module of another property that does not compile (or a failing
    translator) cannot take this property's driver down.  Generated idempotently from lean/Main.lean."""
    names = sorted({c.drv for c in comps if c.drv_bin == "bngdrv"})
    if not names:
        return None
    exe = "drv-" + prop.lower()
    root = "Drv" + prop.upper()
    reg = _driver_registry()
    missing = [n for n in names if n not in reg]
    if missing:
        return None     # fall back to the common bngdrv
    mods = sorted({reg[n][0] for n in names})
    src = "import Bng.Drv.Common\n" + "".join("import %s\n" % m for m in mods) + \
          "/- GENERATED by lib/verif.py ensure_driver: the trace replayer of %s (components: %s) -/\n" % (prop, ", ".join(names)) + \
          "open Bng.Drv\n\ndef components : List (String × Component) := [\n" + \
          ",\n".join('  ("%s", %s)' % (n, reg[n][1]) for n in names) + "\n]\n\n" + \
          "def main (args : List String) : IO UInt32 := do\n  match args with\n  | [name] =>\n" + \
          "    match components.lookup name with\n    | some c => runComponent c\n" + \
          "    | none => IO.eprintln s!\"unknown component {name}\"; return 2\n" + \
          "  | _ => IO.eprintln \"usage: %s <component> < trace\"; return 2\n" % exe
    with Lock("lean"):
        path = os.path.join(LEAN, root + ".lean")
        if not os.path.exists(path) or open(path).read() != src:
            with open(path + ".tmp", "w") as f:
                f.write(src)
            os.replace(path + ".tmp", path)
        lf = os.path.join(LEAN, "lakefile.toml")
        txt = open(lf).read()
        entry = '\n[[lean_exe]]\nname = "%s"\nroot = "%s"\n' % (exe, root)
        if ('name = "%s"' % exe) not in txt:
            with open(lf, "a") as f:
                f.write(entry)
    return exe


def strip_comments(src):
    """drop block comments, line comments and the contents of string literals (keeps line numbers)"""
    src = re.sub(r'"(?:[^"\\\n]|\\.)*"', '""', src)       # string literals first: a "/-" inside one opens nothing
    out, i, depth = [], 0, 0
    while i < len(src):                                      # block comments nest; a line comment hides a "/-"
        two = src[i:i + 2]
        if depth == 0 and two == "--":
            j = src.find("\n", i)
            i = len(src) if j < 0 else j
        elif two == "/-":
            depth += 1
            i += 2
        elif two == "-/" and depth > 0:
            depth -= 1
            i += 2
        else:
            if depth == 0 or src[i] == "\n":
                out.append(src[i])
            i += 1
    return "".join(out)


def load_known(prop):
    p = os.path.join(VERIF, "known_findings.json")
    if not os.path.exists(p):
        return {}
    out = {}
    for e in json.load(open(p)).get("findings", []):
        if prop in e.get("properties", [e.get("property")]) and e.get("status") == "known":
            out[e["clause"]] = e
    return out


def read_seqs(path):
    """returns list of sequences; each a list of raw trace lines"""
    seqs, cur = [], []
    for line in open(path, errors="replace"):
        line = line.rstrip("\n")
        if line.startswith("#"):
            continue
        if not line.strip():
            if cur:
                seqs.append(cur)
                cur = []
            continue
        cur.append(line)
    if cur:
        seqs.append(cur)
    return seqs


def ops_of(seq):
    return [l.split(" => ")[0] for l in seq]


class Component:
    """one (harness binary, bngdrv component) pair and the monitors that belong to the property"""

    def __init__(self, name, harness=None, drv=None, monitors=None, gen_args=None, corpus=None, exec_env=None,
                 ignore_diff_ops=(), drv_bin="bngdrv", kind="main"):
        self.name = name
        self.harness = harness or name
        self.drv = drv or name
        self.monitors = monitors    # None = all monitors of that driver belong to this property
        self.gen_args = gen_args or []
        self.corpus = corpus or name
        self.exec_env = exec_env or {}
        # observer operations whose answer is not part of THIS property (another property's check owns them):
        # a model/implementation disagreement on these alone does not break this property's correspondence
        self.ignore_diff_ops = set(ignore_diff_ops)
        # name of the lean_exe target that hosts this component's driver (default: the common bngdrv);
        # drivers that import REGENERATED modules (Bng/Gen) live in their own executable so that a failing
        # translator cannot take the other properties' driver down
        self.drv_bin = drv_bin
        # "main": harness/cmd/<harness> is a main package; "gotest": it is a test package built with `go test -c`
        # (its TestMain must implement the same gen/exec command line)
        self.kind = kind


def run_harness(args, env, stdin_path=None, stdin_text=None, stdout_path=None, timeout=7200):
    """run a harness binary; returns (rc, stderr tail); rc 124 = timed out"""
    fin = open(stdin_path, "rb") if stdin_path else None
    try:
        with open(stdout_path, "wb") as fout:
            p = subprocess.run(args, stdin=fin, input=(stdin_text.encode() if stdin_text is not None else None),
                               stdout=fout, stderr=subprocess.PIPE, env=env, timeout=timeout)
        return p.returncode, p.stderr.decode("utf-8", "replace")[-800:]
    except subprocess.TimeoutExpired:
        return 124, "timed out after %ss" % timeout
    finally:
        if fin:
            fin.close()


def count_lines(path, strip_obs=False):
    n = 0
    for l in open(path, errors="replace"):
        if l.strip() and not l.startswith("#"):
            n += 1
    return n


_MON_CACHE = {}


def monitor_declared(name):
    """a monitor name listed in a check must occur as a string literal in the Lean sources (a renamed or mistyped
    monitor would otherwise silence the property for good)"""
    if not _MON_CACHE:
        blob = []
        for root, _, files in os.walk(os.path.join(LEAN, "Bng")):
            for fn in files:
                if fn.endswith(".lean"):
                    blob.append(open(os.path.join(root, fn), errors="replace").read())
        _MON_CACHE["blob"] = "\n".join(blob)
    return ('"%s"' % name) in _MON_CACHE["blob"]


def run_component(ctx, comp, seeds=None, tier=None):
    """correspondence + monitor pass for one component; returns list of anomaly dicts"""
    tier = tier or ctx.tier
    seeds = seeds or [ctx.seed]
    binp = ctx.go_build(comp.harness, comp.kind)
    if binp is None:
        return []
    for mname in (comp.monitors or []):
        if not monitor_declared(mname):
            ctx.broken.append(("machinery", "check lists monitor %r for component %s but no Lean source declares it" % (mname, comp.name)))
    anomalies = []
    env = dict(os.environ)
    env.update(comp.exec_env)
    traces = []
    # corpus first
    cdir = os.path.join(VERIF, "corpus", comp.corpus)
    if os.path.isdir(cdir):
        for fn in sorted(os.listdir(cdir)):
            src = os.path.join(cdir, fn)
            tp = os.path.join(ctx.scratch, "%s-corpus-%s.trace" % (comp.name, fn))
            rc, err = run_harness([binp, "exec"], env, stdin_path=src, stdout_path=tp, timeout=1800)
            if rc != 0:
                # the inputs are fixed: a crash that comes from the code under test comes again; one that does not
                # (the machine ran out of something) must not turn the run red
                first = (rc, err)
                rc, err = run_harness([binp, "exec"], env, stdin_path=src, stdout_path=tp, timeout=1800)
                if rc == 0:
                    ctx.notes.append("%s exec of corpus %s exited %d once and succeeded when repeated: %s" % (comp.name, fn, first[0], first[1][-300:]))
            if rc != 0:
                ctx.broken.append(("harness", "%s exec of corpus %s exited %d (twice): %s" % (comp.name, fn, rc, err)))
            want, got = count_lines(src), count_lines(tp)
            if want != got:
                # a crash (goroutine panic, fatal error, os.Exit) loses the rest of the file: never replay a shortened trace as if it were whole
                ctx.broken.append(("harness", "%s corpus %s: %d operations in, %d trace lines out (harness died or dropped lines)" % (comp.name, fn, want, got)))
            traces.append(("corpus:" + fn, tp))
    for sd in seeds:
        if sd not in ctx.seeds_run:
            ctx.seeds_run.append(sd)
        tp = os.path.join(ctx.scratch, "%s-gen-%d.trace" % (comp.name, sd))
        gen_cmd = [binp, "gen", "-seed", str(sd), "-tier", tier] + comp.gen_args
        rc, err = run_harness(gen_cmd, env, stdout_path=tp, timeout=7200)
        if rc != 0:
            first = (rc, err)     # same seed, same sequences: see above
            rc, err = run_harness(gen_cmd, env, stdout_path=tp, timeout=7200)
            if rc == 0:
                ctx.notes.append("%s gen (seed %d) exited %d once and succeeded when repeated: %s" % (comp.name, sd, first[0], first[1][-300:]))
        if rc != 0:
            ctx.broken.append(("harness", "%s gen exited %d (twice): %s" % (comp.name, rc, err)))
        traces.append(("seed:%d" % sd, tp))
    cstat = ctx.corr["components"].setdefault(comp.name, {"seqs": 0, "lines": 0, "diffs": 0, "viols": 0})
    seen_diff = set()
    first_diff = {}      # (origin, seq) -> line of the first counted divergence of that sequence
    for origin, tp in traces:
        out, rc, err = ctx.drv(comp.drv, tp, comp.drv_bin)
        if rc != 0:
            ctx.broken.append(("driver", "bngdrv %s exited %d: %s" % (comp.drv, rc, err[-500:])))
        elif err.strip():
            # a Lean `panic!` (e.g. an out-of-range `xs[i]!`) goes to stderr and the run goes on with a default value
            ctx.broken.append(("driver", "bngdrv %s wrote to stderr: %s" % (comp.drv, err.strip()[-500:])))
        seqs = None
        stats_seen = False
        for line in out:
            if line.startswith("STATS"):
                try:
                    kv = dict(x.split("=", 1) for x in line.split()[1:])
                    for k in ("seqs", "lines"):
                        ctx.corr[k] += int(kv[k])
                        cstat[k] += int(kv[k])
                    stats_seen = True
                    if int(kv["lines"]) != count_lines(tp):
                        ctx.broken.append(("driver", "bngdrv %s replayed %s of the %d trace lines of %s" % (comp.drv, kv["lines"], count_lines(tp), origin)))
                except (KeyError, ValueError):
                    ctx.broken.append(("driver", "unparseable STATS line of bngdrv %s: %s" % (comp.drv, line[:200])))
                continue
            m = re.match(r"(DIFF|VIOL) seq=(\d+) line=(\d+) (.*)", line)
            if not m:
                continue
            kind, sq, ln, rest = m.group(1), int(m.group(2)), int(m.group(3)), m.group(4)
            a = {"kind": kind, "seq": sq, "line": ln, "origin": origin, "component": comp.name, "text": rest}
            if kind == "VIOL":
                mm = re.match(r"monitor=(\S+) clause=(\S+) detail=(.*) op=(.*)", rest)
                if not mm:
                    ctx.broken.append(("driver", "unparseable VIOL line of bngdrv %s: %s" % (comp.drv, rest[:300])))
                    continue
                a.update(monitor=mm.group(1), clause=mm.group(2), detail=mm.group(3), op=mm.group(4))
                if comp.monitors is not None and a["monitor"] not in comp.monitors:
                    # another property's monitor (that property's check lists it); counted, so that nothing vanishes unseen
                    ctx.foreign[a["monitor"]] = ctx.foreign.get(a["monitor"], 0) + 1
                    continue
                # once model and implementation have parted in a sequence, what the driver derives from the model's state
                # (the known-finding clause) is no longer evidence: the verdict is judged as an unlisted one
                fd = first_diff.get((origin, sq))
                a["after_diff"] = fd is not None and fd <= ln
                cstat["viols"] += 1
                ctx.corr["viols"] += 1
            else:
                opk = rest[3:].split(" ")[0] if rest.startswith("op=") else ""
                if opk in comp.ignore_diff_ops or (origin, sq) in seen_diff:
                    continue   # not this property's observable / cascade of an earlier divergence
                seen_diff.add((origin, sq))
                first_diff[(origin, sq)] = ln
                cstat["diffs"] += 1
                ctx.corr["diffs"] += 1
            if seqs is None:
                seqs = read_seqs(tp)
            a["trace"] = seqs[sq] if sq < len(seqs) else []
            anomalies.append(a)
        if rc == 0 and not stats_seen:
            ctx.broken.append(("driver", "bngdrv %s printed no STATS line for %s" % (comp.drv, origin)))
        summarize_trace(ctx, comp, tp)
    if cstat["seqs"] == 0:
        ctx.broken.append(("harness", "component %s: no sequence was executed and replayed" % comp.name))
    return anomalies


def summarize_trace(ctx, comp, tp):
    """input distribution for the evidence: op kinds x observation kinds, distinct non-trivial sequences"""
    dist = ctx.corr["dist"].setdefault(comp.name, {})
    nseq = 0
    cur = []
    def flush():
        nonlocal cur, nseq
        if not cur:
            return
        nseq += 1
        kinds = set()
        for l in cur:
            op, _, obs = l.partition(" => ")
            o0 = (obs.split(" ") or [""])[0]
            k = (op.split(" ")[0], o0 if re.fullmatch(r"[a-zA-Z_-]{1,14}", o0) else "<value>")
            dist["%s=>%s" % k] = dist.get("%s=>%s" % k, 0) + 1
            kinds.add(k)
        # non-trivial: at least 3 operations and at least 2 different (op, outcome) kinds
        if len(cur) >= 3 and len(kinds) >= 2:
            ctx.corr["distinct"].add(hashlib.sha1("\n".join(cur).encode()).digest()[:8])
        if len(ctx.corr["samples"]) < 3 and 3 <= len(cur) <= 14:
            ctx.corr["samples"].append({"component": comp.name, "trace": cur})
        cur = []
    for line in open(tp, errors="replace"):
        line = line.rstrip("\n")
        if line.startswith("#"):
            continue
        if not line.strip():
            flush()
        else:
            cur.append(line)
    flush()


def recheck(ctx, comp, binp, ops, want):
    """execute ops on the real code, replay on the model; does an anomaly matching `want` occur?"""
    tp = os.path.join(ctx.scratch, "shrink.trace")
    env = dict(os.environ)
    env.update(comp.exec_env)
    run_harness([binp, "exec"], env, stdin_text="\n".join(ops) + "\n", stdout_path=tp, timeout=600)
    out, _, _ = ctx.drv(comp.drv, tp, comp.drv_bin)
    for line in out:
        if want["kind"] == "VIOL" and line.startswith("VIOL") and ("monitor=%s " % want["monitor"]) in line \
                and ("clause=%s " % want["clause"]) in line:
            return True, tp
        if want["kind"] == "DIFF" and line.startswith("DIFF"):
            m = re.search(r" op=(\S+)", line)
            if m and m.group(1) in comp.ignore_diff_ops:
                continue
            return True, tp
    return False, tp


def shrink(ctx, comp, anomaly, budget_s=60):
    binp = os.path.join(ctx.scratch, "hx-" + comp.harness)
    ops = ops_of(anomaly["trace"])[: anomaly["line"] + 1]
    t_end = time.time() + budget_s
    ok, _ = recheck(ctx, comp, binp, ops, anomaly)
    if not ok:
        return ops_of(anomaly["trace"])   # not reproducible in isolation: keep the original
    chunk = max(1, (len(ops) - 1) // 2)
    while chunk >= 1 and time.time() < t_end:
        i = 1   # never drop the constructor line
        changed = False
        while i < len(ops) and time.time() < t_end:
            cand = ops[:i] + ops[i + chunk:]
            if len(cand) >= 1 and recheck(ctx, comp, binp, cand, anomaly)[0]:
                ops = cand
                changed = True
            else:
                i += chunk
        if chunk == 1 and not changed:
            break
        chunk = chunk // 2 if chunk > 1 else (1 if changed else 0)
    return ops


def write_replay(ctx, name, payload):
    d = ctx.replay_dir
    os.makedirs(d, exist_ok=True)
    p = os.path.join(d, "%s-%d-%s.json" % (ctx.prop, ctx.seed, re.sub(r"[^\w.-]", "_", name)))
    payload = dict(payload, **repo_state())
    with open(p, "w") as f:
        json.dump(payload, f, indent=1)
    return p


def judge(ctx, comps, anomalies_by_comp, escalate=None):
    """turn anomalies into KNOWN-FINDING / VIOLATION lines (DESIGN §4)"""
    viols = []
    diffs = []
    for comp, anomalies in anomalies_by_comp:
        for a in anomalies:
            if a["kind"] == "VIOL":
                e = ctx.known.get(a["clause"])
                # an entry that names its component / monitors accounts for verdicts of exactly those
                if e is not None and not a.get("after_diff") and e.get("match_component", comp.name) == comp.name and \
                        a["monitor"] in e.get("match_monitors", [a["monitor"]]):
                    ctx.known_hits.setdefault(a["clause"], e["what"])
                    ctx.suppressed[a["clause"]] = ctx.suppressed.get(a["clause"], 0) + 1
                else:
                    viols.append((comp, a))
            else:
                diffs.append((comp, a))
    reported = set()
    for comp, a in viols:
        key = (comp.name, a["monitor"], a["clause"])
        if key in reported:
            continue
        reported.add(key)
        ops = shrink(ctx, comp, a)
        _, tp = recheck(ctx, comp, os.path.join(ctx.scratch, "hx-" + comp.harness), ops, a)
        rp = write_replay(ctx, "%s-%s" % (comp.name, a["monitor"]) + ("" if a["clause"] == "none" else "-" + a["clause"]), {
            "property": ctx.prop, "kind": "monitor-violation-on-implementation", "component": comp.name,
            "monitor": a["monitor"], "clause": a["clause"], "detail": a["detail"], "origin": a["origin"], "seed": ctx.seed,
            "ops": ops, "trace": open(tp).read().splitlines(),
            "replay_cmd": "./check %s --replay <this file>" % ctx.prop})
        ctx.violations.append((rp, ""))
    if viols:
        return
    # no failing input so far: broken proof obligations or a diverging correspondence
    if diffs or ctx.broken:
        found = False
        if escalate is not None:
            found = escalate()
        if found:
            return
        if diffs:
            comp, a = diffs[0]
            ops = shrink(ctx, comp, a)
            _, tp = recheck(ctx, comp, os.path.join(ctx.scratch, "hx-" + comp.harness), ops, a)
            out, _, _ = ctx.drv(comp.drv, tp, comp.drv_bin)
            rp = write_replay(ctx, "%s-diff" % comp.name, {
                "property": ctx.prop, "kind": "correspondence-broken", "component": comp.name,
                "what": "model and implementation disagree; no property monitor fired on the implementation",
                "first_divergence": a["text"], "origin": a["origin"], "ops": ops,
                "impl_trace": open(tp).read().splitlines(), "driver_output": out, "total_diffs": len(diffs)})
            ctx.violations.append((rp, " no-failing-input-found"))
        else:
            rp = write_replay(ctx, "obligation", {
                "property": ctx.prop, "kind": "proof-obligation-broken",
                "broken": [{"kind": k, "detail": d} for k, d in ctx.broken],
                "lean_errors": ctx.proof["errors"]})
            ctx.violations.append((rp, " no-failing-input-found"))


def finish(ctx, level_text, assumptions, checker_cmd, extra_cov=None):
    for cl, what in sorted(ctx.known_hits.items()):
        print("KNOWN-FINDING: property=%s %s %s" % (ctx.prop, cl, what))
    for cl, e in sorted(ctx.known.items()):
        if cl not in ctx.known_hits:
            print("NOTE: listed finding %s was not reproduced in this run" % cl)
    cov = {
        "obligations": ctx.proof["obligations"],
        "discharged": ctx.proof["discharged"],
        "checker_cmd": checker_cmd,
        "trusted_base": TRUSTED_BASE,
        "evaluations": ctx.corr["lines"],
        "distinct_nontrivial": len(ctx.corr["distinct"]),
        "rule": "evaluations = trace lines (operations executed on the real code and replayed on the model); "
                "a sequence is non-trivial when it has >= 3 operations with >= 2 different (operation, outcome) kinds; "
                "distinct = distinct by content hash",
        "traces_validated_against_impl": ctx.corr["seqs"],
        "model_impl_disagreements": ctx.corr["diffs"],
        "monitor_verdicts_on_impl": ctx.corr["viols"],
        "components": ctx.corr["components"],
        "input_distribution": ctx.corr["dist"],
        "theorems": ctx.proof["theorems"],
        "samples": (ctx.proof["theorems"][:3] + ctx.corr["samples"][:3]) or ["none"],
        "known_findings_hit": sorted(ctx.known_hits),
        "known_finding_verdicts": ctx.suppressed,
        "verdicts_of_other_properties_monitors": ctx.foreign,
        "escalated_search": ctx.escalated,
        "seeds_run": ctx.seeds_run,
        "broken": [{"kind": k, "detail": d[:400]} for k, d in ctx.broken],
        "notes": ctx.notes,
        "explanation": level_text,
    }
    if extra_cov:
        cov.update(extra_cov)
    cov.update(repo_state())
    ev = {
        "property_id": ctx.prop, "tier": ctx.tier, "seed": ctx.seed, "level": "proof",
        "coverage": cov, "assumptions": assumptions, "wall_s": round(time.time() - ctx.t0, 2),
        "violations": len(ctx.violations),
    }
    os.makedirs(ctx.evidence_dir, exist_ok=True)
    with open(os.path.join(ctx.evidence_dir, ctx.prop + ".json"), "w") as f:
        json.dump(ev, f, indent=1)
    for rp, suffix in ctx.violations:
        print("VIOLATION property=%s replay=%s%s" % (ctx.prop, rp, suffix))
    ctx.cleanup()
    print("%s %s: obligations %d/%d, %d sequences / %d ops replayed, %d diffs, %d monitor verdicts, %d known findings, %.0fs" % (
        ctx.prop, ctx.tier, ctx.proof["discharged"], ctx.proof["obligations"], ctx.corr["seqs"], ctx.corr["lines"],
        ctx.corr["diffs"], ctx.corr["viols"], len(ctx.known_hits), time.time() - ctx.t0))
    return 1 if ctx.violations else 0


def standard_check(prop, spec_module, comps, level_text, assumptions, tier, seed, pre=None, post=None):
    """the common shape: theorems + correspondence of a list of components"""
    ctx = Ctx(prop, tier, seed)
    specs = [spec_module] if isinstance(spec_module, str) else list(spec_module)
    checker_cmd = "cd /verif/lean && lake build %s && lake env lean audit/Audit%s.lean" % (" ".join(specs), prop)
    try:
        # one hold of the lean lock from the regeneration of the Gen tables to the private copies of the driver
        # executables: a concurrent run (of this or of a scratch tree) cannot swap tables, .olean files or binaries
        with Lock("lean"):
            if pre:
                pre(ctx)
            ctx.lean_check(specs)
            if tier == "thorough":
                ctx.leanchecker(specs)
            own = ensure_driver(prop, comps)
            if own:
                for c in comps:
                    if c.drv_bin == "bngdrv":
                        c.drv_bin = own
            else:
                ctx.notes.append("no per-property driver could be generated: replaying with the common bngdrv")
            for b in sorted({c.drv_bin for c in comps}):
                ctx.build_driver(b)
        results = [(c, run_component(ctx, c)) for c in comps]
        if post:
            post(ctx)

        def escalate():
            # widen the search for a concrete failing input: ten seeds, thorough generators
            ctx.escalated = True
            found = False
            for c in comps:
                an = run_component(ctx, c, seeds=list(range(10)), tier="thorough" if tier == "thorough" else "quick")
                vs = [a for a in an if a["kind"] == "VIOL" and (a["clause"] not in ctx.known or a.get("after_diff"))]
                if vs:
                    judge(ctx, comps, [(c, vs)])
                    found = bool(ctx.violations)
                    if found:
                        break
            return found

        judge(ctx, comps, results, escalate)
    except Exception:
        # the machinery itself failed: that is a broken obligation, reported like one (never a bare traceback)
        ctx.broken.append(("machinery", traceback.format_exc()[-1500:]))
        if not ctx.violations:
            rp = write_replay(ctx, "obligation", {
                "property": ctx.prop, "kind": "proof-obligation-broken",
                "broken": [{"kind": k, "detail": d} for k, d in ctx.broken], "lean_errors": ctx.proof["errors"]})
            ctx.violations.append((rp, " no-failing-input-found"))
    return finish(ctx, level_text, assumptions, checker_cmd)


def replay(prop, comps, path, spec_module=None, pre=None):
    """re-run a replay file against the current tree: exit 1 (with the VIOLATION line) if what it records still happens"""
    data = json.load(open(path))
    ctx = Ctx(prop, "quick", 0)
    try:
        comp = next((c for c in comps if c.name == data.get("component")), None)
        if comp is None:
            # a broken proof obligation: re-check the theorems
            print(json.dumps(data, indent=1)[:4000])
            if spec_module is None:
                print("(no component in this replay file and no Spec modules given: nothing re-run)")
                return 0
            with Lock("lean"):
                if pre:
                    pre(ctx)      # translators: the theorems are re-checked against tables regenerated from the current tree
                ok = ctx.lean_check(spec_module)
            for k, d in ctx.broken:
                print("BROKEN %s: %s" % (k, d[:400]))
            if not ok or ctx.broken:
                print("VIOLATION property=%s replay=%s no-failing-input-found" % (prop, path))
                return 1
            print("the obligations of %s check on the current tree" % prop)
            return 0
        binp = ctx.go_build(comp.harness, comp.kind)
        if binp is None:
            for k, d in ctx.broken:
                print("BROKEN %s: %s" % (k, d[:400]))
            print("VIOLATION property=%s replay=%s no-failing-input-found" % (prop, path))
            return 1
        own = ensure_driver(prop, comps)
        if own and comp.drv_bin == "bngdrv":
            comp.drv_bin = own
        tp = os.path.join(ctx.scratch, "replay.trace")
        env = dict(os.environ)
        env.update(comp.exec_env)
        run_harness([binp, "exec"], env, stdin_text="\n".join(data["ops"]) + "\n", stdout_path=tp, timeout=1800)
        print("--- implementation trace")
        print(open(tp, errors="replace").read())
        print("--- model / monitor verdicts (bngdrv %s)" % comp.drv)
        out, _, _ = ctx.drv(comp.drv, tp, comp.drv_bin)
        print("\n".join(out))
        hit = False
        for line in out:
            if data.get("kind") == "monitor-violation-on-implementation":
                if line.startswith("VIOL") and ("monitor=%s " % data.get("monitor")) in line and \
                        ("clause=%s " % data.get("clause", "none")) in line:
                    hit = True
            elif line.startswith("DIFF"):
                m = re.search(r" op=(\S+)", line)
                if not (m and m.group(1) in comp.ignore_diff_ops):
                    hit = True
        if hit:
            sfx = "" if data.get("kind") == "monitor-violation-on-implementation" else " no-failing-input-found"
            print("VIOLATION property=%s replay=%s%s" % (prop, path, sfx))
            return 1
        print("not reproduced on the current tree")
        return 0
    finally:
        ctx.cleanup()
