"""
Shared machinery of /verif/check  (python3, standard library only).

One run of one check (see DESIGN.md §2.1):
  1. regenerate lean/Bng/Gen/* from /repo's working tree (translators, if the property has any)
  2. re-check the property's theorems (lake build Bng.Spec.Cxx), audit their axioms, grep for escapes
  3. build the Go harness against /repo's working tree with  -tags verif
  4. correspondence + search: run corpus and generated operation sequences on the REAL code, replay
     the traces on the Lean model with `bngdrv`, evaluate the property monitors on the
     implementation's observations
  5. verdict, evidence file, replay file
"""
import fcntl
import hashlib
import json
import os
import re
import shutil
import subprocess
import sys
import time

VERIF = os.path.dirname(os.path.dirname(os.path.abspath(__file__)))
REPO = os.environ.get("VERIF_REPO", "/repo")
LEAN = os.path.join(VERIF, "lean")
HARNESS = os.path.join(VERIF, "harness")
BNGDRV = os.path.join(LEAN, ".lake", "build", "bin", "bngdrv")
ALLOWED_AXIOMS = {"propext", "Classical.choice", "Quot.sound"}
FORBIDDEN = re.compile(r"\bsorry\b|\badmit\b|^\s*axiom\s|native_decide|bv_decide|implemented_by|\bunsafe\s|maxHeartbeats\s+0")

TRUSTED_BASE = [
    "Lean 4.33.0 kernel; axioms allowed: propext, Classical.choice, Quot.sound (audited per theorem with collectAxioms)",
    "no sorry/admit/own axioms/native_decide/bv_decide/implemented_by/unsafe in lean/Bng (grep on every run)",
    "hand-written Lean model of the anchored Go/C code, tied to the code by the correspondence run of this check",
    "the Go harness (drives the real packages in-process) and bngdrv's parser/printer",
    "the generators' reach bounds what the correspondence can see",
]


def env_go():
    e = dict(os.environ)
    e["GOFLAGS"] = "-mod=mod"
    e["GOPROXY"] = "off"
    e.pop("GOSUMDB", None) if e.get("GOSUMDB") == "off" else None
    return e


class Lock:
    """serialises lake builds and Gen regeneration between concurrently running checks"""

    def __init__(self, name="lean"):
        self.path = os.path.join(VERIF, ".%s.lock" % name)

    def __enter__(self):
        self.f = open(self.path, "w")
        fcntl.flock(self.f, fcntl.LOCK_EX)
        return self

    def __exit__(self, *a):
        fcntl.flock(self.f, fcntl.LOCK_UN)
        self.f.close()


def sh(cmd, cwd=None, env=None, timeout=None, stdin=None):
    p = subprocess.run(cmd, cwd=cwd, env=env, timeout=timeout, input=stdin,
                       stdout=subprocess.PIPE, stderr=subprocess.STDOUT, text=True)
    return p.returncode, p.stdout


class Ctx:
    def __init__(self, prop, tier, seed):
        self.prop = prop
        self.tier = tier
        self.seed = seed
        self.t0 = time.time()
        base = os.environ.get("XDG_CACHE_HOME") or "/var/tmp"
        self.scratch = os.path.join(base, "bngverif-%s-%d" % (prop, os.getpid()))
        os.makedirs(self.scratch, exist_ok=True)
        self.violations = []      # (replay_path, suffix)
        self.known_hits = {}      # finding id -> what
        self.proof = {"obligations": 0, "discharged": 0, "theorems": [], "errors": []}
        self.corr = {"seqs": 0, "lines": 0, "diffs": 0, "viols": 0, "components": {}, "samples": [],
                     "distinct": set(), "dist": {}}
        self.notes = []
        self.broken = []          # broken obligations / correspondence: (kind, detail)
        self.known = load_known(prop)
        self._built_bins = set()

    def cleanup(self):
        shutil.rmtree(self.scratch, ignore_errors=True)

    # ---------------------------------------------------------------- Lean side
    def lean_check(self, spec_modules, extra_modules=()):
        """re-elaborate the Spec module(s), audit axioms; returns True if every obligation is discharged"""
        if isinstance(spec_modules, str):
            spec_modules = [spec_modules]
        with Lock("lean"):
            for spec_module in spec_modules:
                rel = spec_module.replace(".", "/")
                for ext in (".olean", ".ilean"):
                    try:
                        os.remove(os.path.join(LEAN, ".lake/build/lib/lean", rel + ext))
                    except OSError:
                        pass
            rc, out = sh(["lake", "build", "Bng.Audit"] + list(spec_modules) + list(extra_modules), cwd=LEAN)
            if rc != 0:
                errs = [l for l in out.splitlines() if l.startswith("error")]
                self.proof["errors"] += errs[:20] or [out[-2000:]]
                self.broken.append(("proof", "lake build %s failed: %s" % (" ".join(spec_modules), "; ".join(errs[:3]))))
                return False
            audit = os.path.join(self.scratch, "audit.lean")
            with open(audit, "w") as f:
                f.write("".join("import %s\n" % m for m in spec_modules) + "import Bng.Audit\n" +
                        "".join("#audit_module %s\n" % m for m in spec_modules))
            rc, out = sh(["lake", "env", "lean", audit], cwd=LEAN)
        ok = rc == 0
        for line in out.splitlines():
            m = re.match(r"(?:.*info: )?THEOREM (\S+) AXIOMS (\S+)", line)
            if m:
                name, axs = m.group(1), m.group(2)
                axl = [] if axs == "-" else axs.split(",")
                bad = [a for a in axl if a not in ALLOWED_AXIOMS]
                self.proof["obligations"] += 1
                if bad:
                    ok = False
                    self.broken.append(("proof", "%s depends on %s" % (name, ",".join(bad))))
                else:
                    self.proof["discharged"] += 1
                self.proof["theorems"].append({"theorem": name, "axioms": axl})
            elif "AXIOMDECL" in line:
                ok = False
                self.broken.append(("proof", "axiom declared: " + line.strip()))
        if rc != 0:
            self.broken.append(("proof", "axiom audit failed: " + out[-500:]))
        # escapes anywhere in the project sources
        for root, _, files in os.walk(os.path.join(LEAN, "Bng")):
            for fn in files:
                if not fn.endswith(".lean") or fn == "Audit.lean":
                    continue
                p = os.path.join(root, fn)
                for n, l in enumerate(strip_comments(open(p).read()).splitlines(), 1):
                    if FORBIDDEN.search(l):
                        ok = False
                        self.broken.append(("proof", "forbidden construct in %s:%d: %s" % (p, n, l.strip())))
        if self.proof["obligations"] == 0:
            ok = False
            self.broken.append(("proof", "no theorem found in " + " ".join(spec_modules)))
        return ok

    def leanchecker(self, spec_modules):
        if isinstance(spec_modules, str):
            spec_modules = [spec_modules]
        with Lock("lean"):
            rc, out = sh(["lake", "env", "leanchecker"] + list(spec_modules), cwd=LEAN)
        if rc != 0:
            self.broken.append(("proof", "leanchecker rejected %s: %s" % (spec_modules, out[-500:])))
        self.notes.append("leanchecker %s rc=%d" % (" ".join(spec_modules), rc))
        return rc == 0

    # ---------------------------------------------------------------- implementation side
    def harness_dir(self):
        """the harness module; when VERIF_REPO points somewhere else than /repo (a scratch worktree used to try a
        candidate change) a private copy with the `replace` line rewritten is used"""
        if os.path.realpath(REPO) == "/repo":
            return HARNESS
        d = os.path.join(self.scratch, "harness")
        if not os.path.isdir(d):
            shutil.copytree(HARNESS, d)
            gm = os.path.join(d, "go.mod")
            txt = open(gm).read().replace("=> /repo", "=> " + os.path.realpath(REPO))
            open(gm, "w").write(txt)
        return d

    def go_build(self, comp, kind="main"):
        """build harness/cmd/<comp> against the repository's working tree with hooks on
        (kind="gotest": a test binary, for harnesses that need testing/synctest)"""
        out = os.path.join(self.scratch, "hx-" + comp)
        hd = self.harness_dir()
        with Lock("gomod"):
            try:
                shutil.copy(os.path.join(REPO, "go.sum"), os.path.join(hd, "go.sum"))
            except OSError:
                pass
            if kind == "gotest":
                cmd = ["go", "test", "-c", "-tags", "verif", "-o", out, "./cmd/" + comp]
            else:
                cmd = ["go", "build", "-tags", "verif", "-o", out, "./cmd/" + comp]
            rc, log = sh(cmd, cwd=hd, env=env_go())
        if rc != 0:
            self.broken.append(("harness", "go build ./cmd/%s failed: %s" % (comp, log[-1500:])))
            return None
        return out

    def drv(self, comp_drv, trace_path, drv_bin="bngdrv"):
        exe = os.path.join(LEAN, ".lake", "build", "bin", drv_bin)
        if drv_bin not in self._built_bins:
            with Lock("lean"):
                rc, out = sh(["lake", "build", drv_bin], cwd=LEAN)
            self._built_bins.add(drv_bin)
            if rc != 0:
                self.broken.append(("driver", "lake build %s failed: %s" % (drv_bin, out[-800:])))
        if not os.path.exists(exe):
            return [], 127, "driver executable %s missing" % exe
        with open(trace_path) as f:
            p = subprocess.run([exe, comp_drv], stdin=f, stdout=subprocess.PIPE, stderr=subprocess.PIPE, text=True)
        return p.stdout.splitlines(), p.returncode, p.stderr



def _driver_registry():
    """component name -> (import module, Lean expression), parsed from lean/Main.lean and the Drv modules"""
    main = open(os.path.join(LEAN, "Main.lean")).read()
    ns2mod = {}
    for fn in os.listdir(os.path.join(LEAN, "Bng", "Drv")):
        if fn.endswith(".lean"):
            m = re.search(r"^namespace Bng\.Drv\.(\w+)", open(os.path.join(LEAN, "Bng", "Drv", fn)).read(), flags=re.M)
            if m:
                ns2mod[m.group(1)] = "Bng.Drv." + fn[:-5]
    reg = {}
    for m in re.finditer(r'\("([\w-]+)",\s*([^\n]+?)\)\s*,?\s*$', main, flags=re.M):
        name, expr = m.group(1), m.group(2).strip()
        ns = expr.split(".")[0]
        if ns in ns2mod:
            reg[name] = (ns2mod[ns], expr)
    return reg


def ensure_driver(prop, comps):
    """every property replays its traces with its OWN executable `drv-cNN`, which links only the driver
    modules of that property's components: a module of another property that does not compile (or a failing
    translator) cannot take this property's driver down.  Generated idempotently from lean/Main.lean."""
    names = sorted({c.drv for c in comps if c.drv_bin == "bngdrv"})
    if not names:
        return None
    exe = "drv-" + prop.lower()
    root = "Drv" + prop.upper()
    reg = _driver_registry()
    missing = [n for n in names if n not in reg]
    if missing:
        return None     # fall back to the common bngdrv
    mods = sorted({reg[n][0] for n in names})
    src = "import Bng.Drv.Common\n" + "".join("import %s\n" % m for m in mods) + \
          "/- GENERATED by lib/verif.py ensure_driver: the trace replayer of %s (components: %s) -/\n" % (prop, ", ".join(names)) + \
          "open Bng.Drv\n\ndef components : List (String × Component) := [\n" + \
          ",\n".join('  ("%s", %s)' % (n, reg[n][1]) for n in names) + "\n]\n\n" + \
          "def main (args : List String) : IO UInt32 := do\n  match args with\n  | [name] =>\n" + \
          "    match components.lookup name with\n    | some c => runComponent c\n" + \
          "    | none => IO.eprintln s!\"unknown component {name}\"; return 2\n" + \
          "  | _ => IO.eprintln \"usage: %s <component> < trace\"; return 2\n" % exe
    with Lock("lean"):
        path = os.path.join(LEAN, root + ".lean")
        if not os.path.exists(path) or open(path).read() != src:
            with open(path + ".tmp", "w") as f:
                f.write(src)
            os.replace(path + ".tmp", path)
        lf = os.path.join(LEAN, "lakefile.toml")
        txt = open(lf).read()
        entry = '\n[[lean_exe]]\nname = "%s"\nroot = "%s"\n' % (exe, root)
        if ('name = "%s"' % exe) not in txt:
            with open(lf, "a") as f:
                f.write(entry)
    return exe


def strip_comments(src):
    """drop block comments, line comments and the contents of string literals (keeps line numbers)"""
    src = re.sub(r"/-.*?-/", lambda m: "\n" * m.group(0).count("\n"), src, flags=re.S)
    src = re.sub(r'"(?:[^"\\\n]|\\.)*"', '""', src)
    return re.sub(r"--.*", "", src)


def load_known(prop):
    p = os.path.join(VERIF, "known_findings.json")
    if not os.path.exists(p):
        return {}
    out = {}
    for e in json.load(open(p)).get("findings", []):
        if prop in e.get("properties", [e.get("property")]) and e.get("status") == "known":
            out[e["clause"]] = e
    return out


def read_seqs(path):
    """returns list of sequences; each a list of raw trace lines"""
    seqs, cur = [], []
    for line in open(path):
        line = line.rstrip("\n")
        if line.startswith("#"):
            continue
        if not line.strip():
            if cur:
                seqs.append(cur)
                cur = []
            continue
        cur.append(line)
    if cur:
        seqs.append(cur)
    return seqs


def ops_of(seq):
    return [l.split(" => ")[0] for l in seq]


class Component:
    """one (harness binary, bngdrv component) pair and the monitors that belong to the property"""

    def __init__(self, name, harness=None, drv=None, monitors=None, gen_args=None, corpus=None, exec_env=None,
                 ignore_diff_ops=(), drv_bin="bngdrv", kind="main"):
        self.name = name
        self.harness = harness or name
        self.drv = drv or name
        self.monitors = monitors    # None = all monitors of that driver belong to this property
        self.gen_args = gen_args or []
        self.corpus = corpus or name
        self.exec_env = exec_env or {}
        # observer operations whose answer is not part of THIS property (another property's check owns them):
        # a model/implementation disagreement on these alone does not break this property's correspondence
        self.ignore_diff_ops = set(ignore_diff_ops)
        # name of the lean_exe target that hosts this component's driver (default: the common bngdrv);
        # drivers that import REGENERATED modules (Bng/Gen) live in their own executable so that a failing
        # translator cannot take the other properties' driver down
        self.drv_bin = drv_bin
        # "main": harness/cmd/<harness> is a main package; "gotest": it is a test package built with `go test -c`
        # (its TestMain must implement the same gen/exec command line)
        self.kind = kind


def run_component(ctx, comp, seeds=None, tier=None):
    """correspondence + monitor pass for one component; returns list of anomaly dicts"""
    tier = tier or ctx.tier
    seeds = seeds or [ctx.seed]
    binp = ctx.go_build(comp.harness, comp.kind)
    if binp is None:
        return []
    anomalies = []
    env = dict(os.environ)
    env.update(comp.exec_env)
    traces = []
    # corpus first
    cdir = os.path.join(VERIF, "corpus", comp.corpus)
    if os.path.isdir(cdir):
        for fn in sorted(os.listdir(cdir)):
            tp = os.path.join(ctx.scratch, "%s-corpus-%s.trace" % (comp.name, fn))
            with open(os.path.join(cdir, fn)) as fin, open(tp, "w") as fout:
                subprocess.run([binp, "exec"], stdin=fin, stdout=fout, env=env, timeout=1800)
            traces.append(("corpus:" + fn, tp))
    for sd in seeds:
        tp = os.path.join(ctx.scratch, "%s-gen-%d.trace" % (comp.name, sd))
        with open(tp, "w") as fout:
            p = subprocess.run([binp, "gen", "-seed", str(sd), "-tier", tier] + comp.gen_args,
                               stdout=fout, stderr=subprocess.PIPE, env=env, timeout=7200, text=True)
        if p.returncode != 0:
            ctx.broken.append(("harness", "%s gen exited %d: %s" % (comp.name, p.returncode, p.stderr[-800:])))
        traces.append(("seed:%d" % sd, tp))
    cstat = ctx.corr["components"].setdefault(comp.name, {"seqs": 0, "lines": 0, "diffs": 0, "viols": 0})
    seen_diff = set()
    for origin, tp in traces:
        out, rc, err = ctx.drv(comp.drv, tp, comp.drv_bin)
        if rc != 0:
            ctx.broken.append(("driver", "bngdrv %s exited %d: %s" % (comp.drv, rc, err[-500:])))
        seqs = None
        for line in out:
            if line.startswith("STATS"):
                kv = dict(x.split("=") for x in line.split()[1:])
                for k in ("seqs", "lines"):
                    ctx.corr[k] += int(kv[k])
                    cstat[k] += int(kv[k])
                continue
            m = re.match(r"(DIFF|VIOL) seq=(\d+) line=(\d+) (.*)", line)
            if not m:
                continue
            kind, sq, ln, rest = m.group(1), int(m.group(2)), int(m.group(3)), m.group(4)
            a = {"kind": kind, "seq": sq, "line": ln, "origin": origin, "component": comp.name, "text": rest}
            if kind == "VIOL":
                mm = re.match(r"monitor=(\S+) clause=(\S+) detail=(.*) op=(.*)", rest)
                a.update(monitor=mm.group(1), clause=mm.group(2), detail=mm.group(3), op=mm.group(4))
                if comp.monitors is not None and a["monitor"] not in comp.monitors:
                    continue
                cstat["viols"] += 1
                ctx.corr["viols"] += 1
            else:
                opk = rest[3:].split(" ")[0] if rest.startswith("op=") else ""
                if opk in comp.ignore_diff_ops or (origin, sq) in seen_diff:
                    continue   # not this property's observable / cascade of an earlier divergence
                seen_diff.add((origin, sq))
                cstat["diffs"] += 1
                ctx.corr["diffs"] += 1
            if seqs is None:
                seqs = read_seqs(tp)
            a["trace"] = seqs[sq] if sq < len(seqs) else []
            anomalies.append(a)
        summarize_trace(ctx, comp, tp)
    return anomalies


def summarize_trace(ctx, comp, tp):
    """input distribution for the evidence: op kinds x observation kinds, distinct non-trivial sequences"""
    dist = ctx.corr["dist"].setdefault(comp.name, {})
    nseq = 0
    cur = []
    def flush():
        nonlocal cur, nseq
        if not cur:
            return
        nseq += 1
        kinds = set()
        for l in cur:
            op, _, obs = l.partition(" => ")
            o0 = (obs.split(" ") or [""])[0]
            k = (op.split(" ")[0], o0 if re.fullmatch(r"[a-zA-Z_-]{1,14}", o0) else "<value>")
            dist["%s=>%s" % k] = dist.get("%s=>%s" % k, 0) + 1
            kinds.add(k)
        # non-trivial: at least 3 operations and at least 2 different (op, outcome) kinds
        if len(cur) >= 3 and len(kinds) >= 2:
            ctx.corr["distinct"].add(hashlib.sha1("\n".join(cur).encode()).digest()[:8])
        if len(ctx.corr["samples"]) < 3 and 3 <= len(cur) <= 14:
            ctx.corr["samples"].append({"component": comp.name, "trace": cur})
        cur = []
    for line in open(tp):
        line = line.rstrip("\n")
        if line.startswith("#"):
            continue
        if not line.strip():
            flush()
        else:
            cur.append(line)
    flush()


def recheck(ctx, comp, binp, ops, want):
    """execute ops on the real code, replay on the model; does an anomaly matching `want` occur?"""
    tp = os.path.join(ctx.scratch, "shrink.trace")
    env = dict(os.environ)
    env.update(comp.exec_env)
    with open(tp, "w") as fout:
        subprocess.run([binp, "exec"], input="\n".join(ops) + "\n", stdout=fout, env=env, text=True, timeout=600)
    out, _, _ = ctx.drv(comp.drv, tp, comp.drv_bin)
    for line in out:
        if want["kind"] == "VIOL" and line.startswith("VIOL") and ("monitor=%s " % want["monitor"]) in line \
                and ("clause=%s " % want["clause"]) in line:
            return True, tp
        if want["kind"] == "DIFF" and line.startswith("DIFF"):
            m = re.search(r" op=(\S+)", line)
            if m and m.group(1) in comp.ignore_diff_ops:
                continue
            return True, tp
    return False, tp


def shrink(ctx, comp, anomaly, budget_s=60):
    binp = os.path.join(ctx.scratch, "hx-" + comp.harness)
    ops = ops_of(anomaly["trace"])[: anomaly["line"] + 1]
    t_end = time.time() + budget_s
    ok, _ = recheck(ctx, comp, binp, ops, anomaly)
    if not ok:
        return ops_of(anomaly["trace"])   # not reproducible in isolation: keep the original
    chunk = max(1, (len(ops) - 1) // 2)
    while chunk >= 1 and time.time() < t_end:
        i = 1   # never drop the constructor line
        changed = False
        while i < len(ops) and time.time() < t_end:
            cand = ops[:i] + ops[i + chunk:]
            if len(cand) >= 1 and recheck(ctx, comp, binp, cand, anomaly)[0]:
                ops = cand
                changed = True
            else:
                i += chunk
        if chunk == 1 and not changed:
            break
        chunk = chunk // 2 if chunk > 1 else (1 if changed else 0)
    return ops


def write_replay(ctx, name, payload):
    d = os.path.join(VERIF, "replays")
    os.makedirs(d, exist_ok=True)
    p = os.path.join(d, "%s-%d-%s.json" % (ctx.prop, ctx.seed, name))
    with open(p, "w") as f:
        json.dump(payload, f, indent=1)
    return p


def judge(ctx, comps, anomalies_by_comp, escalate=None):
    """turn anomalies into KNOWN-FINDING / VIOLATION lines (DESIGN §4)"""
    viols = []
    diffs = []
    for comp, anomalies in anomalies_by_comp:
        for a in anomalies:
            if a["kind"] == "VIOL":
                if a["clause"] in ctx.known:
                    ctx.known_hits.setdefault(a["clause"], ctx.known[a["clause"]]["what"])
                else:
                    viols.append((comp, a))
            else:
                diffs.append((comp, a))
    reported = set()
    for comp, a in viols:
        key = (comp.name, a["monitor"], a["clause"])
        if key in reported:
            continue
        reported.add(key)
        ops = shrink(ctx, comp, a)
        _, tp = recheck(ctx, comp, os.path.join(ctx.scratch, "hx-" + comp.harness), ops, a)
        rp = write_replay(ctx, "%s-%s" % (comp.name, a["monitor"]), {
            "property": ctx.prop, "kind": "monitor-violation-on-implementation", "component": comp.name,
            "monitor": a["monitor"], "detail": a["detail"], "origin": a["origin"], "seed": ctx.seed,
            "ops": ops, "trace": open(tp).read().splitlines(),
            "replay_cmd": "./check %s --replay <this file>" % ctx.prop})
        ctx.violations.append((rp, ""))
    if viols:
        return
    # no failing input so far: broken proof obligations or a diverging correspondence
    if diffs or ctx.broken:
        found = False
        if escalate is not None:
            found = escalate()
        if found:
            return
        if diffs:
            comp, a = diffs[0]
            ops = shrink(ctx, comp, a)
            _, tp = recheck(ctx, comp, os.path.join(ctx.scratch, "hx-" + comp.harness), ops, a)
            out, _, _ = ctx.drv(comp.drv, tp, comp.drv_bin)
            rp = write_replay(ctx, "%s-diff" % comp.name, {
                "property": ctx.prop, "kind": "correspondence-broken", "component": comp.name,
                "what": "model and implementation disagree; no property monitor fired on the implementation",
                "first_divergence": a["text"], "origin": a["origin"], "ops": ops,
                "impl_trace": open(tp).read().splitlines(), "driver_output": out, "total_diffs": len(diffs)})
            ctx.violations.append((rp, " no-failing-input-found"))
        else:
            rp = write_replay(ctx, "obligation", {
                "property": ctx.prop, "kind": "proof-obligation-broken",
                "broken": [{"kind": k, "detail": d} for k, d in ctx.broken],
                "lean_errors": ctx.proof["errors"]})
            ctx.violations.append((rp, " no-failing-input-found"))


def finish(ctx, level_text, assumptions, checker_cmd, extra_cov=None):
    for cl, what in sorted(ctx.known_hits.items()):
        print("KNOWN-FINDING: property=%s %s %s" % (ctx.prop, cl, what))
    for cl, e in sorted(ctx.known.items()):
        if cl not in ctx.known_hits:
            print("NOTE: listed finding %s was not reproduced in this run" % cl)
    cov = {
        "obligations": ctx.proof["obligations"],
        "discharged": ctx.proof["discharged"],
        "checker_cmd": checker_cmd,
        "trusted_base": TRUSTED_BASE,
        "evaluations": ctx.corr["lines"],
        "distinct_nontrivial": len(ctx.corr["distinct"]),
        "rule": "evaluations = trace lines (operations executed on the real code and replayed on the model); "
                "a sequence is non-trivial when it has >= 3 operations with >= 2 different (operation, outcome) kinds; "
                "distinct = distinct by content hash",
        "traces_validated_against_impl": ctx.corr["seqs"],
        "model_impl_disagreements": ctx.corr["diffs"],
        "monitor_verdicts_on_impl": ctx.corr["viols"],
        "components": ctx.corr["components"],
        "input_distribution": ctx.corr["dist"],
        "theorems": ctx.proof["theorems"],
        "samples": (ctx.proof["theorems"][:3] + ctx.corr["samples"][:3]) or ["none"],
        "known_findings_hit": sorted(ctx.known_hits),
        "broken": [{"kind": k, "detail": d[:400]} for k, d in ctx.broken],
        "notes": ctx.notes,
        "explanation": level_text,
    }
    if extra_cov:
        cov.update(extra_cov)
    ev = {
        "property_id": ctx.prop, "tier": ctx.tier, "seed": ctx.seed, "level": "proof",
        "coverage": cov, "assumptions": assumptions, "wall_s": round(time.time() - ctx.t0, 2),
        "violations": len(ctx.violations),
    }
    os.makedirs(os.path.join(VERIF, "evidence"), exist_ok=True)
    with open(os.path.join(VERIF, "evidence", ctx.prop + ".json"), "w") as f:
        json.dump(ev, f, indent=1)
    for rp, suffix in ctx.violations:
        print("VIOLATION property=%s replay=%s%s" % (ctx.prop, rp, suffix))
    ctx.cleanup()
    print("%s %s: obligations %d/%d, %d sequences / %d ops replayed, %d diffs, %d monitor verdicts, %d known findings, %.0fs" % (
        ctx.prop, ctx.tier, ctx.proof["discharged"], ctx.proof["obligations"], ctx.corr["seqs"], ctx.corr["lines"],
        ctx.corr["diffs"], ctx.corr["viols"], len(ctx.known_hits), time.time() - ctx.t0))
    return 1 if ctx.violations else 0


def standard_check(prop, spec_module, comps, level_text, assumptions, tier, seed, pre=None, post=None):
    """the common shape: theorems + correspondence of a list of components"""
    ctx = Ctx(prop, tier, seed)
    try:
        if pre:
            pre(ctx)
        ctx.lean_check(spec_module)
        if tier == "thorough":
            ctx.leanchecker(spec_module)
        own = ensure_driver(prop, comps)
        if own:
            for c in comps:
                if c.drv_bin == "bngdrv":
                    c.drv_bin = own
        results = [(c, run_component(ctx, c)) for c in comps]
        if post:
            post(ctx)

        def escalate():
            # widen the search for a concrete failing input: ten seeds, thorough generators
            found = False
            for c in comps:
                an = run_component(ctx, c, seeds=list(range(10)), tier="thorough" if tier == "thorough" else "quick")
                vs = [a for a in an if a["kind"] == "VIOL" and a["clause"] not in ctx.known]
                if vs:
                    judge(ctx, comps, [(c, vs)])
                    found = True
                    break
            return found

        judge(ctx, comps, results, escalate)
        return finish(ctx, level_text, assumptions,
                      "cd /verif/lean && lake build %s && lake env lean <file with: #audit_module <each Spec module>>" % (
                          spec_module if isinstance(spec_module, str) else " ".join(spec_module)))
    except Exception:
        ctx.cleanup()
        raise


def replay(prop, comps, path):
    data = json.load(open(path))
    ctx = Ctx(prop, "quick", 0)
    try:
        comp = next((c for c in comps if c.name == data.get("component")), None)
        if comp is None:
            print(json.dumps(data, indent=1))
            return 0
        binp = ctx.go_build(comp.harness, comp.kind)
        own = ensure_driver(prop, comps)
        if own and comp.drv_bin == "bngdrv":
            comp.drv_bin = own
        tp = os.path.join(ctx.scratch, "replay.trace")
        with open(tp, "w") as fout:
            subprocess.run([binp, "exec"], input="\n".join(data["ops"]) + "\n", stdout=fout, text=True)
        print("--- implementation trace")
        print(open(tp).read())
        print("--- model / monitor verdicts (bngdrv %s)" % comp.drv)
        out, _, _ = ctx.drv(comp.drv, tp, comp.drv_bin)
        print("\n".join(out))
        return 0
    finally:
        ctx.cleanup()
