"""
Concurrency pass of the LocalPool components (C01, C05): the harnesses cmd/localpool and cmd/peercluster are
built a second time with `go build -race`; with POOL_STRESS=1 they generate burst-heavy sequences only (k
goroutines request an address for ONE subscriber at the same moment, parked at the pool lock and released
together, then an audit of allocations / free list / reverse index and Stats).  A report of the race detector, a
crash, a model/implementation disagreement, or a verdict of the property's monitors that no recorded finding's
clause covers is a violation.
"""
import os
import re
import subprocess

import verif as V

STRESS = [("localpool", "localpool"), ("peercluster", "peercluster")]   # (harness main, bngdrv component)


def make(prop, monitors, stress=None, envvar="POOL_STRESS", label="LocalPool"):
    """stress: (harness main, bngdrv component) pairs; envvar switches the harness generator to its stress sequences
    (default: the LocalPool components; checks/c17.py passes the rendezvous churn stress with RV_STRESS)"""
    stress = stress or STRESS

    def race_pass(ctx):
        total = {"seqs": 0, "lines": 0, "races": 0, "verdicts": 0}
        for main, drv in stress:
            out = os.path.join(ctx.scratch, "hx-%s-race" % main)
            with V.Lock("gomod"):
                rc, log = V.sh(["go", "build", "-race", "-tags", "verif", "-o", out, "./cmd/" + main],
                               cwd=ctx.harness_dir(), env=V.env_go())
            if rc != 0:
                ctx.broken.append(("harness", "go build -race ./cmd/%s failed: %s" % (main, log[-1200:])))
                continue
            env = dict(os.environ)
            env[envvar] = "1"
            tp = os.path.join(ctx.scratch, "%s-stress.trace" % main)
            with open(tp, "w") as fout:
                p = subprocess.run([out, "gen", "-seed", str(ctx.seed), "-tier", ctx.tier], stdout=fout,
                                   stderr=subprocess.PIPE, env=env, text=True, timeout=7200)
            races = p.stderr.count("WARNING: DATA RACE")
            total["races"] += races
            if races or p.returncode != 0:
                rp = V.write_replay(ctx, "%s-race" % main, {
                    "property": prop, "kind": "data-race-or-crash-under-race-detector", "component": drv,
                    "exit_code": p.returncode, "races": races, "stderr": p.stderr[:6000],
                    "replay_cmd": "cd /verif/harness && go build -race -tags verif -o /var/tmp/hx ./cmd/%s && "
                                  "%s=1 /var/tmp/hx gen -seed %d -tier %s" % (main, envvar, ctx.seed, ctx.tier)})
                ctx.violations.append((rp, ""))
            # replay with the property's own driver executable (built by standard_check) so that a module of another
            # property that does not compile cannot take this pass down; the common bngdrv only as a fallback
            own = "drv-" + prop.lower()
            comp = V.Component(drv, harness=main, drv_bin=own if ctx.exes.get(own) else "bngdrv")
            lines, rc, err = ctx.drv(comp.drv, tp, comp.drv_bin)
            if rc != 0:
                ctx.broken.append(("driver", "bngdrv %s (stress) exited %d: %s" % (drv, rc, err[-300:])))
            cst = ctx.corr["components"].setdefault(drv + "-stress", {"seqs": 0, "lines": 0, "diffs": 0, "viols": 0})
            bad = []
            for line in lines:
                if line.startswith("STATS"):
                    kv = dict(x.split("=") for x in line.split()[1:])
                    for k in ("seqs", "lines"):
                        ctx.corr[k] += int(kv[k])
                        cst[k] += int(kv[k])
                        total[k] += int(kv[k])
                elif line.startswith("DIFF"):
                    cst["diffs"] += 1
                    bad.append(line)
                elif line.startswith("VIOL"):
                    m = re.search(r"monitor=(\S+) clause=(\S+)", line)
                    if not m or m.group(1) not in monitors:
                        continue
                    cst["viols"] += 1
                    if m.group(2) in ctx.known:
                        ctx.known_hits.setdefault(m.group(2), ctx.known[m.group(2)]["what"])
                    else:
                        bad.append(line)
            if cst["seqs"] == 0:
                ctx.broken.append(("harness", "%s produced no stress sequence" % main))
            if bad:
                total["verdicts"] += len(bad)
                seqs = V.read_seqs(tp)
                m = re.match(r"(?:VIOL|DIFF) seq=(\d+) line=(\d+)", bad[0])
                sq, ln = (int(m.group(1)), int(m.group(2))) if m else (0, 0)
                tr = seqs[sq][:ln + 1] if sq < len(seqs) else []
                rp = V.write_replay(ctx, "%s-stress" % drv, {
                    "property": prop, "kind": "monitor-violation-on-implementation-under-concurrency",
                    "component": drv, "driver_output": bad[:20], "trace": tr, "ops": V.ops_of(tr)})
                ctx.violations.append((rp, ""))
            V.summarize_trace(ctx, comp, tp)
        ctx.notes.append(label + " race stress (go build -race, " + envvar + "=1): %(seqs)d sequences / %(lines)d ops, "
                         "%(races)d race reports, %(verdicts)d uncovered verdicts or disagreements" % total)
    return race_pass
