"""lock-discipline translator (harness/cmd/extractlocks -> lean/Bng/Gen/Locks.lean), shared by the checks whose models
take "one critical section = one atomic step" as their step granularity.  Use:  pre=locks.with_locks(other_pre)"""
import os

import verif as V

LOCKS = os.path.join(V.LEAN, "Bng", "Gen", "Locks.lean")

ASSUME = ("translator harness/cmd/extractlocks (go/ast, no type information): Gen/Locks.lean lists, for the methods the models "
          "execute as atomic steps, the mutex acquisitions in source order and every receiver-field access / call with the "
          "mutexes held there; the Spec.*Locks theorems decide on the regenerated table that each such method still is the "
          "critical section(s) the model takes it for - structure only (which lock is held where), not behaviour; a closure is "
          "walked where it is written, a `go` body with nothing held; an equivalent restructuring of the locking breaks the "
          "obligation too (the correspondence and race runs then look for a concrete input)")


def regenerate(ctx):
    """re-extract the table from V.REPO's working tree at the start of every run (called under the lean lock)"""
    with V.Lock("lean"):
        with V.Lock("gomod"):
            rc, out = V.sh(["go", "run", "./cmd/extractlocks", "-repo", V.REPO, "-out", LOCKS], cwd=V.HARNESS, env=V.env_go())
        if rc != 0 and os.path.exists(LOCKS):
            os.remove(LOCKS)
    if rc != 0:
        msg = "; ".join(l for l in out.splitlines() if l.startswith("extractlocks:") and "wrote" not in l) or out[-800:]
        ctx.broken.append(("translator", "extract locks failed: " + msg))
    ctx.notes.append("extractlocks rc=%d" % rc)


def with_locks(other=None):
    def pre(ctx):
        if other:
            other(ctx)
        regenerate(ctx)
    return pre
